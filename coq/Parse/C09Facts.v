(* Surface-variation facts about the parser model's primitives: keyword tests see a token only through str.upper(); redundant
   back-quotes around a name disappear in _unify_name; operator-word spellings. *)
From Coq Require Import List NArith ZArith Bool String Ascii Lia.
Require Import Base.Common Gen.LexTable Lex.Model Cur.Model Tree.Value Gen.Static Parse.Prim Parse.Model.
Import ListNotations.
Open Scope string_scope.
Open Scope list_scope.

(* ---------- keyword tests are case-blind: they depend on the token text only through upper ---------- *)
Definition same_upper (a b : tok) : Prop := upper (source a) = upper (source b).
Lemma seu_case a b kw : same_upper a b -> source_equal_upper a kw = source_equal_upper b kw.
Proof. unfold same_upper, source_equal_upper. intros H. rewrite H. reflexivity. Qed.

Lemma take_up_case a b kw r : same_upper a b -> fst (take_up kw (a :: r)) = fst (take_up kw (b :: r)) /\ 
  (fst (take_up kw (a :: r)) = true -> snd (take_up kw (a :: r)) = r /\ snd (take_up kw (b :: r)) = r).
Proof.
  intros H. unfold take_up, take, peek_up. rewrite (seu_case a b kw H). destruct (source_equal_upper b kw); cbn [fst snd skipn]; auto.
  split; [reflexivity|discriminate].
Qed.
Lemma take_up2_case a b a2 b2 k1 k2 r : same_upper a b -> same_upper a2 b2 ->
  fst (take_up2 k1 k2 (a :: a2 :: r)) = fst (take_up2 k1 k2 (b :: b2 :: r)).
Proof. intros H1 H2. unfold take_up2, take, peek_up2. rewrite (seu_case a b k1 H1), (seu_case a2 b2 k2 H2). destruct (_ && _); reflexivity. Qed.
Lemma take_set_up_case a b kws r : same_upper a b -> fst (take_set_up kws (a :: r)) = fst (take_set_up kws (b :: r)).
Proof. intros H. unfold take_set_up, take, peek_set_up. unfold same_upper in H. rewrite H. destruct (mem_str _ _); reflexivity. Qed.
Lemma next_compute_op_case a b r : same_upper a b -> next_compute_op (a :: r) = next_compute_op (b :: r).
Proof. unfold next_compute_op, hd_src, same_upper. intros H. rewrite H. reflexivity. Qed.

(* upper is idempotent on ASCII letters and leaves other ASCII characters alone: a keyword written in any mix of cases has the upper
   form of its upper-case spelling *)
Fixpoint ascii_only (s : str) : bool := match s with [] => true | c :: r => N.ltb c 128 && ascii_only r end.
Definition lower1 (c : N) : N := if andb (N.leb 65 c) (N.leb c 90) then (c + 32)%N else c.
Lemma upper1_lower1 c : N.ltb c 128 = true -> upper1 (lower1 c) = upper1 c.
Proof.
  intros H. apply N.ltb_lt in H. unfold lower1.
  destruct (andb (N.leb 65 c) (N.leb c 90)) eqn:E; [|reflexivity].
  apply andb_true_iff in E as [E1 E2]. apply N.leb_le in E1. apply N.leb_le in E2.
  unfold upper1.
  assert (A : andb (N.leb 97 (c + 32)) (N.leb (c + 32) 122) = true) by (apply andb_true_iff; split; apply N.leb_le; lia).
  rewrite A.
  assert (B : andb (N.leb 97 c) (N.leb c 122) = false) by (apply andb_false_iff; left; apply N.leb_gt; lia).
  rewrite B.
  replace (c + 32 - 32)%N with c by lia.
  (* an upper-case ASCII letter is not in the exotic table: finite check over 65..90 *)
  assert (T : forall k, (65 <= k <= 90)%N -> assocN k Gen.Upper.upper_exotic = None).
  { intros k Hk. assert (Hin : In k (map N.of_nat (seq 65 26))).
    { apply in_map_iff. exists (N.to_nat k). split; [apply N2Nat.id|apply in_seq; lia]. }
    revert k Hk Hin. assert (F : forallb (fun k => match assocN k Gen.Upper.upper_exotic with None => true | Some _ => false end) (map N.of_nat (seq 65 26)) = true) by (vm_compute; reflexivity).
    intros k _ Hin. rewrite forallb_forall in F. specialize (F k Hin). destruct (assocN k Gen.Upper.upper_exotic); [discriminate|reflexivity]. }
  rewrite (T c) by lia. reflexivity.
Qed.

(* ---------- redundant back-quotes: `x` and x are the same name ---------- *)
Lemma lstrip_app_c c : forall s, lstrip c (s ++ [c]) = match lstrip c s with [] => [] | l => l ++ [c] end.
Proof.
  induction s as [|x s IH]; cbn [app lstrip].
  - rewrite N.eqb_refl. reflexivity.
  - destruct (N.eqb x c) eqn:E; [exact IH|]. cbn [app]. reflexivity.
Qed.
Lemma strip_quoted c s : strip c (c :: s ++ [c]) = strip c s.
Proof.
  unfold strip. cbn [lstrip]. rewrite N.eqb_refl. rewrite lstrip_app_c.
  destruct (lstrip c s) as [|y l] eqn:E; [reflexivity|].
  rewrite rev_app_distr. cbn [rev app lstrip]. rewrite N.eqb_refl. reflexivity.
Qed.
Theorem backquotes_redundant s : unify_name (96%N :: s ++ [96%N]) = unify_name s.
Proof. apply strip_quoted. Qed.

(* ---------- operator-word spellings of the logical layers, in the letter cases of the generator ---------- *)
Definition and_spellings : list string := ["AND"; "and"; "And"; "aNd"; "&&"].
Definition or_spellings : list string := ["OR"; "or"; "Or"; "oR"; "||"].
Lemma and_or_spellings :
  forallb (fun w => fst (take_set_up [S "AND"; S "&&"] [Leaf (S w) 0])) and_spellings &&
  forallb (fun w => fst (take_set_up [S "OR"; S "||"] [Leaf (S w) 0])) or_spellings = true.
Proof. vm_compute. reflexivity. Qed.
