(* A second, RELATIONAL sweep over the whole parser model (Parse/Model.v): whatever a parse function returns as "the
   remaining tokens" is a SUFFIX of the tokens it was given -- the cursor only moves forward, tokens are never
   re-ordered, invented or handed back, for every function, dialect, argument, token list and fuel.  Same structure as
   Parse/Sweep.v: one induction on the fuel over the open-recursive `body`, every body discharged by one syntax-directed
   tactic.  (Until the fix 70ccdec _parse_table_expression handed back the cursor of a bracket group it had opened and never
   closed it: the theorem had to exclude that function by name, which is how the missing close() was found.) *)
From Coq Require Import List NArith ZArith Bool String Ascii Lia.
Require Import Base.Common Gen.LexTable Lex.Model Cur.Model Tree.Value Gen.Static Parse.Prim Parse.Model.
Import ListNotations.
Open Scope string_scope.
Open Scope list_scope.

Definition sfx (r ts : toks) : Prop := exists pre, ts = pre ++ r.
Lemma sfx_refl ts : sfx ts ts. Proof. exists []. reflexivity. Qed.
Lemma sfx_trans a b c : sfx a b -> sfx b c -> sfx a c.
Proof. intros [p Hp] [q Hq]. exists (q ++ p). subst. rewrite app_assoc. reflexivity. Qed.
Lemma sfx_skipn k ts : sfx (skipn k ts) ts.
Proof. exists (firstn k ts). symmetry. apply firstn_skipn. Qed.
Lemma sfx_cons t ts : sfx ts (t :: ts). Proof. exists [t]. reflexivity. Qed.
Lemma sfx_nil ts : sfx [] ts. Proof. exists ts. symmetry. apply app_nil_r. Qed.
Lemma sfx_length r ts : sfx r ts -> (List.length r <= List.length ts)%nat.
Proof. intros [p Hp]. subst. rewrite app_length. lia. Qed.
Lemma sfx_app_inv pre r ts : ts = pre ++ r -> sfx r ts. Proof. intros H. exists pre. exact H. Qed.

(* which part of a result is "the remaining tokens" *)
Class Rest (A : Type) := rest_of : A -> option toks.
#[global] Instance rest_any A : Rest A | 100 := fun _ => None.
#[global] Instance rest_toks : Rest toks | 0 := fun t => Some t.
#[global] Instance rest_pair A : Rest (A * toks) | 0 := fun p => Some (snd p).
#[global] Instance rest_res A `{Rest A} : Rest (res A) | 0 := fun x => match x with Ok a => rest_of a | Err _ => None end.
#[global] Instance rest_opt A `{Rest A} : Rest (option A) | 0 := fun x => match x with Some a => rest_of a | None => None end.

Definition SF {A} `{Rest A} (x : A) (ts : toks) : Prop := match rest_of x with Some r => sfx r ts | None => True end.

Lemma SF_mono {A} `{Rest A} (x : A) a b : SF x a -> sfx a b -> SF x b.
Proof. unfold SF. destruct (rest_of x); [|trivial]. intros H1 H2. eapply sfx_trans; eassumption. Qed.

Ltac sf_unfold := cbv beta iota delta [SF rest_of rest_any rest_toks rest_pair rest_res rest_opt snd fst].
Ltac sf_unfold_in H := cbv beta iota delta [SF rest_of rest_any rest_toks rest_pair rest_res rest_opt snd fst] in H.

Ltac sfx_solve :=
  lazymatch goal with
  | |- sfx ?r ?t =>
      first [ apply sfx_refl
            | assumption
            | apply sfx_nil
            | match goal with
              | H : sfx r ?m |- _ => tryif constr_eq m r then fail else (apply (sfx_trans r m t H); sfx_solve)
              end
            | match goal with
              | H : sfx (?x :: r) _ |- _ => apply (sfx_trans r (x :: r) t (sfx_cons x r)); sfx_solve
              end
            | lazymatch r with skipn ?k ?m => apply (sfx_trans r m t (sfx_skipn k m)); sfx_solve end
            | lazymatch t with ?x :: ?m => apply (sfx_trans r m t); [sfx_solve | apply sfx_cons] end ]
  | |- True => exact I
  end.

(* ---------- primitives ---------- *)
Lemma SF_take b k ts : SF (take b k ts) ts.
Proof. unfold take. destruct b; sf_unfold; [apply sfx_skipn|apply sfx_refl]. Qed.
Lemma SF_take_str s ts : SF (take_str s ts) ts. Proof. apply SF_take. Qed.
Lemma SF_take_up s ts : SF (take_up s ts) ts. Proof. apply SF_take. Qed.
Lemma SF_take_up2 a b ts : SF (take_up2 a b ts) ts. Proof. apply SF_take. Qed.
Lemma SF_take_up3 a b c ts : SF (take_up3 a b c ts) ts. Proof. apply SF_take. Qed.
Lemma SF_take_set_up l ts : SF (take_set_up l ts) ts. Proof. apply SF_take. Qed.
Lemma SF_take_pats ps ts : SF (take_pats ps ts) ts. Proof. apply SF_take. Qed.
Lemma SF_match_pats ps ts : SF (match_pats ps ts) ts.
Proof. unfold match_pats. destruct (peek_pats ps ts); sf_unfold; [apply sfx_skipn|exact I]. Qed.
Lemma SF_pop ts : SF (pop ts) ts. Proof. destruct ts; sf_unfold; [exact I|apply sfx_cons]. Qed.
Lemma SF_pop_src ts : SF (pop_src ts) ts. Proof. destruct ts; sf_unfold; [exact I|apply sfx_cons]. Qed.
Lemma SF_pop_children ts : SF (pop_children ts) ts. Proof. destruct ts as [|t ts]; cbn [pop_children]; [exact I|]. destruct (is_group t); sf_unfold; [apply sfx_cons|exact I]. Qed.
Lemma SF_pop_split s ts : SF (pop_split s ts) ts. Proof. destruct ts as [|t ts]; cbn [pop_split]; [exact I|]. destruct (is_group t); sf_unfold; [apply sfx_cons|exact I]. Qed.
Lemma SF_first_enum l : forall ts, SF (first_enum l ts) ts.
Proof.
  induction l as [|[n ws] l IH]; intros ts; cbn [first_enum]; [exact I|].
  pose proof (SF_take_pats (map PStr ws) ts) as H. destruct (take_pats (map PStr ws) ts) as [b t']. sf_unfold_in H.
  destruct b; [exact H|apply IH].
Qed.
Lemma SF_first_cast_type l : forall ts, SF (first_cast_type l ts) ts.
Proof.
  induction l as [|[n w] l IH]; intros ts; cbn [first_cast_type]; [exact I|].
  pose proof (SF_take_pats [PStr w] ts) as H. destruct (take_pats [PStr w] ts) as [b t']. sf_unfold_in H.
  destruct b; [exact H|apply IH].
Qed.

Create HintDb sf.
#[global] Hint Resolve SF_take_str SF_take_up SF_take_up2 SF_take_up3 SF_take_set_up SF_take_pats SF_match_pats SF_pop SF_pop_src
  SF_pop_children SF_pop_split SF_first_enum SF_first_cast_type : sf.

(* ---------- the sweep tactic ---------- *)
Ltac head_of t := lazymatch t with ?f _ => head_of f | _ => t end.
Ltac norm_facts :=
  repeat match goal with
         | H : SF _ _ |- _ => sf_unfold_in H
         | H : True |- _ => clear H
         | H : ?r = last _ _ |- _ => subst r
         end.
Ltac scallee_ho := fail.
Ltac fact_hook w := idtac.
(* the innermost scrutinee of nested matches: it is the one evaluated first *)
Ltac inner_scrut t := lazymatch t with match ?w with _ => _ end => inner_scrut w | _ => t end.
(* a fact about the scrutinee, when one is known (calls that return remaining tokens) *)
Ltac fact e :=
  try (let H := fresh "F" in eassert (H : SF e _) by (first [ eassumption | solve [eauto 3 with sf] | scallee_ho ])).
Ltac ssweep :=
  cbv beta zeta;
  lazymatch goal with
  | |- SF ?t _ => tryif (let h := head_of t in is_fix h) then first [tail_call | idtac] else ssweep_core
  end
with ssweep_core :=
  lazymatch goal with
  | |- SF (Ok _) _ => sf_unfold; first [solve [sfx_solve] | idtac]
  | |- SF (Err _) _ => exact I
  | |- SF (Some _) _ => sf_unfold; first [solve [sfx_solve] | idtac]
  | |- SF None _ => exact I
  | |- SF (_, _) _ => sf_unfold; first [solve [sfx_solve] | idtac]
  | |- SF (match ?e with _ => _ end) _ => let w := inner_scrut e in fact w; fact_hook w; destruct w; norm_facts; ssweep
  | |- SF _ _ => first [tail_call | idtac]
  end
with tail_call :=
  first [ eassumption
        | solve [eauto 3 with sf]
        | solve [eapply SF_mono; [ first [ eassumption | solve [eauto 3 with sf] | scallee_ho ] | sfx_solve ]] ].

(* ---------- leaf parsers ---------- *)
Lemma SF_parse_insert_type ts : SF (parse_insert_type ts) ts. Proof. unfold parse_insert_type. ssweep. Qed.
Lemma SF_parse_join_type ts : SF (parse_join_type ts) ts. Proof. unfold parse_join_type. ssweep. Qed.
Lemma SF_parse_order_type ts : SF (parse_order_type ts) ts. Proof. unfold parse_order_type. ssweep. Qed.
Lemma SF_parse_union_type ts : SF (parse_union_type ts) ts. Proof. unfold parse_union_type. ssweep. Qed.
Lemma SF_parse_compare_operator ts : SF (parse_compare_operator ts) ts. Proof. unfold parse_compare_operator. ssweep. Qed.
Lemma SF_parse_compute_operator ts : SF (parse_compute_operator ts) ts. Proof. unfold parse_compute_operator. ssweep. Qed.
Lemma SF_parse_column_name ts : SF (parse_column_name ts) ts. Proof. unfold parse_column_name. ssweep. Qed.
Lemma SF_parse_column_name_with_table ts : SF (parse_column_name_with_table ts) ts. Proof. unfold parse_column_name_with_table. ssweep. Qed.
Lemma SF_parse_column_name_without_table ts : SF (parse_column_name_without_table ts) ts. Proof. unfold parse_column_name_without_table. ssweep. Qed.
Lemma SF_parse_table_name ts : SF (parse_table_name ts) ts. Proof. unfold parse_table_name. ssweep. Qed.
Lemma SF_parse_function_name ts : SF (parse_function_name ts) ts. Proof. unfold parse_function_name. ssweep. Qed.
Lemma SF_parse_literal ts : SF (parse_literal ts) ts. Proof. unfold parse_literal. ssweep. Qed.
Lemma SF_parse_window_row_item ts : SF (parse_window_row_item ts) ts. Proof. unfold parse_window_row_item. ssweep. Qed.
#[global] Hint Resolve SF_parse_insert_type SF_parse_join_type SF_parse_order_type SF_parse_union_type SF_parse_compare_operator
  SF_parse_compute_operator SF_parse_column_name SF_parse_column_name_with_table SF_parse_column_name_without_table SF_parse_table_name
  SF_parse_function_name SF_parse_literal SF_parse_window_row_item : sf.
Lemma SF_parse_window_row ts : SF (parse_window_row ts) ts. Proof. unfold parse_window_row. ssweep. Qed.
Lemma SF_get_alias_name ts : SF (get_alias_name ts) ts. Proof. unfold get_alias_name. ssweep. Qed.
#[global] Hint Resolve SF_parse_window_row SF_get_alias_name : sf.
Lemma SF_parse_alias ts : SF (parse_alias ts) ts. Proof. unfold parse_alias. ssweep. Qed.
Lemma SF_parse_limit ts : SF (parse_limit ts) ts. Proof. unfold parse_limit. ssweep. Qed.
#[global] Hint Resolve SF_parse_alias SF_parse_limit : sf.

(* ---------- combinators ---------- *)
Section Combinators.
  Variable item : toks -> PR.
  Hypothesis Hitem : forall t, SF (item t) t.

  Lemma SF_sep_more sep : forall n ts acc, SF (sep_more n item sep ts acc) ts.
  Proof. induction n as [|n IH]; intros ts acc; cbn [sep_more]; ssweep. Qed.
  Hint Resolve SF_sep_more : sf.
  Lemma SF_sep_list sep ts : SF (sep_list item sep ts) ts.
  Proof. unfold sep_list. ssweep. Qed.
End Combinators.

Ltac scallee_ho ::=
  lazymatch goal with
  | |- SF (sep_list _ _ _) _ => apply SF_sep_list; intros; ssweep
  | |- SF (sep_more _ _ _ _ _) _ => apply SF_sep_more; intros; ssweep
  end.

Lemma SF_parse_multi_alias ts : SF (parse_multi_alias ts) ts. Proof. unfold parse_multi_alias. ssweep. Qed.
Lemma SF_parse_config_string ts : SF (parse_config_string ts) ts.
Proof.
  unfold parse_config_string. ssweep.
  all: match goal with |- SF (?F _ _ _) _ => assert (Hgo : forall k a t, SF (F k a t) t) end.
  all: try solve [induction k as [|k IH]; intros acc t'; lazy beta iota fix; ssweep].
  all: eapply SF_mono; [apply Hgo|sfx_solve].
Qed.
#[global] Hint Resolve SF_parse_multi_alias SF_parse_config_string : sf.
Lemma SF_parse_config_string_expression ts : SF (parse_config_string_expression ts) ts. Proof. unfold parse_config_string_expression. ssweep. Qed.
#[global] Hint Resolve SF_parse_config_string_expression : sf.

Section Loops.
  Variable sub : toks -> PR.
  Hypothesis Hsub : forall t, SF (sub t) t.

  Lemma SF_compute_loop : forall n pend top ts, SF (compute_loop n sub pend top ts) ts.
  Proof.
    induction n as [|n IH]; intros pend top ts; cbn [compute_loop]; [exact I|].
    destruct (next_compute_op ts) as [o|]; [|sf_unfold; apply sfx_refl].
    destruct (reduce_while (op_level o) pend top) as [pend' top'].
    pose proof (Hsub (skipn 1 ts)) as Hs. destruct (sub (skipn 1 ts)) as [[v ts']|e]; [|exact I]. sf_unfold_in Hs.
    eapply SF_mono; [apply IH|]. eapply sfx_trans; [exact Hs|apply sfx_skipn].
  Qed.

  Variable op : toks -> option (value -> value -> value) * toks.
  Hypothesis Hop : forall t, SF (op t) t.
  Lemma SF_left_loop : forall n acc ts, SF (left_loop n sub op acc ts) ts.
  Proof.
    induction n as [|n IH]; intros acc ts; cbn [left_loop]; [exact I|].
    pose proof (Hop ts) as Ho. destruct (op ts) as [[mk|] ts1]; [|sf_unfold; apply sfx_refl]. sf_unfold_in Ho.
    pose proof (Hsub ts1) as Hs. destruct (sub ts1) as [[v ts2]|e]; [|exact I]. sf_unfold_in Hs.
    eapply SF_mono; [apply IH|]. eapply sfx_trans; eassumption.
  Qed.
End Loops.

(* ---------- the recursive part ---------- *)
Section BodySweep.
  Variable rec : REC.
  Variable d : sqltype.
  Hypothesis Hrec : forall f d' a ts, SF (rec f d' a ts) ts.

  Lemma SF_r f ts : SF (r rec d f ts) ts. Proof. unfold r. apply Hrec. Qed.
  Lemma SF_r1 f a ts : SF (r1 rec d f a ts) ts. Proof. unfold r1. apply Hrec. Qed.
  Hint Resolve SF_r SF_r1 : sf.

  Lemma SF_args_list item ts : (forall t, SF (item t) t) -> SF (args_list item ts) ts.
  Proof. intros Hi. unfold args_list. ssweep. Qed.
  Lemma SF_call_args item keep ts : (forall t, SF (item t) t) -> SF (call_args item keep ts) ts.
  Proof. intros Hi. unfold call_args. ssweep. Qed.
  Lemma SF_opt_list c p ts : (forall t, SF (p t) t) -> SF (opt_list c p ts) ts.
  Proof. intros Hp. unfold opt_list. ssweep. Qed.

  Ltac scallee_ho ::=
    lazymatch goal with
    | |- SF (sep_list _ _ _) _ => apply SF_sep_list; intros; ssweep
    | |- SF (sep_more _ _ _ _ _) _ => apply SF_sep_more; intros; ssweep
    | |- SF (args_list _ _) _ => apply SF_args_list; intros; ssweep
    | |- SF (call_args _ _ _) _ => apply SF_call_args; intros; ssweep
    | |- SF (opt_list _ _ _) _ => apply SF_opt_list; intros; ssweep
    | |- SF (compute_loop _ _ _ _ _) _ => apply SF_compute_loop; intros; ssweep
    | |- SF (left_loop _ _ _ _ _) _ => apply SF_left_loop; intros; ssweep
    end.

  Lemma SF_b_extract ts : SF (b_extract rec d ts) ts. Proof. unfold b_extract. ssweep. Qed.
  Lemma SF_b_cast ts : SF (b_cast rec d ts) ts. Proof. unfold b_cast. ssweep. Qed.
  Lemma SF_b_if ts : SF (b_if rec d ts) ts. Proof. unfold b_if. ssweep. Qed.
  Hint Resolve SF_b_extract SF_b_cast SF_b_if : sf.
  Lemma SF_b_function ts : SF (b_function rec d ts) ts. Proof. unfold b_function. ssweep. Qed.
  Lemma SF_b_array_index b ts : SF (b_array_index rec d b ts) ts. Proof. unfold b_array_index. ssweep. Qed.
  Lemma SF_b_function_and_index ts : SF (b_function_and_index rec d ts) ts. Proof. unfold b_function_and_index. ssweep. Qed.
  Hint Resolve SF_b_function SF_b_array_index SF_b_function_and_index : sf.
  Lemma SF_b_in_parenthesis ts : SF (b_in_parenthesis rec d ts) ts. Proof. unfold b_in_parenthesis. ssweep. Qed.
  Lemma SF_b_window ts : SF (b_window rec d ts) ts. Proof. unfold b_window. ssweep. Qed.
  Lemma SF_when_loop cls : forall n ts acc, SF (when_loop rec d n cls ts acc) ts.
  Proof. induction n as [|n IH]; intros ts acc; cbn [when_loop]; ssweep. Qed.
  Hint Resolve SF_b_in_parenthesis SF_b_window SF_when_loop : sf.
  Lemma SF_b_case ts : SF (b_case rec d ts) ts. Proof. unfold b_case. ssweep. Qed.
  Lemma SF_b_sub_query ts : SF (b_sub_query rec d ts) ts. Proof. unfold b_sub_query. ssweep. Qed.
  Lemma SF_b_sub_value ts : SF (b_sub_value rec d ts) ts. Proof. unfold b_sub_value. ssweep. Qed.
  Lemma SF_b_general_parenthesis ts : SF (b_general_parenthesis rec d ts) ts. Proof. unfold b_general_parenthesis. ssweep. Qed.
  Lemma SF_b_element ts : SF (b_element rec d ts) ts. Proof. unfold b_element. ssweep. Qed.
  Lemma SF_b_unary ts : SF (b_unary rec d ts) ts. Proof. unfold b_unary. ssweep. Qed.
  Lemma SF_b_compute ts : SF (b_compute rec d ts) ts. Proof. unfold b_compute. ssweep. Qed.
  Hint Resolve SF_b_case SF_b_sub_query SF_b_sub_value SF_b_general_parenthesis SF_b_element SF_b_unary SF_b_compute : sf.

  Lemma SF_b_keyword_condition before ts : SF (b_keyword_condition rec d before ts) ts.
  Proof.
    unfold b_keyword_condition. pose proof (SF_take_up (S "EXISTS") ts) as HE. sf_unfold_in HE.
    destruct before as [b|]; ssweep.
  Qed.
  Lemma SF_b_operator_condition ts : SF (b_operator_condition rec d ts) ts.
  Proof. unfold b_operator_condition. ssweep. Qed.
  Lemma SF_b_logical_not ts : SF (b_logical_not rec d ts) ts. Proof. unfold b_logical_not. ssweep. Qed.
  Lemma SF_layer cls sub kws ts : SF (layer rec d cls sub kws ts) ts.
  Proof. unfold layer. ssweep. Qed.
  Hint Resolve SF_b_keyword_condition SF_b_operator_condition SF_b_logical_not SF_layer : sf.
  Lemma SF_b_logical_and ts : SF (b_logical_and rec d ts) ts. Proof. apply SF_layer. Qed.
  Lemma SF_b_logical_xor ts : SF (b_logical_xor rec d ts) ts. Proof. apply SF_layer. Qed.
  Lemma SF_b_logical_or ts : SF (b_logical_or rec d ts) ts. Proof. apply SF_layer. Qed.
  Lemma SF_b_order_by_column ts : SF (b_order_by_column rec d ts) ts. Proof. unfold b_order_by_column. ssweep. Qed.
  Lemma SF_b_table_expression ts : SF (b_table_expression rec d ts) ts. Proof. unfold b_table_expression. ssweep. Qed.
  Lemma SF_b_from_table ts : SF (b_from_table rec d ts) ts. Proof. unfold b_from_table. ssweep. Qed.
  Lemma SF_b_select_column ts : SF (b_select_column rec d ts) ts. Proof. unfold b_select_column. ssweep. Qed.
  Hint Resolve SF_b_logical_and SF_b_logical_xor SF_b_logical_or SF_b_order_by_column SF_b_table_expression SF_b_from_table SF_b_select_column : sf.
  Lemma SF_b_select_clause ts : SF (b_select_clause rec d ts) ts. Proof. unfold b_select_clause. ssweep. Qed.
  Lemma SF_b_from_clause ts : SF (b_from_clause rec d ts) ts. Proof. unfold b_from_clause. ssweep. Qed.
  Lemma SF_b_lateral_view ts : SF (b_lateral_view rec d ts) ts. Proof. unfold b_lateral_view. ssweep. Qed.
  Lemma SF_b_join_expression ts : SF (b_join_expression rec d ts) ts. Proof. unfold b_join_expression. ssweep. Qed.
  Hint Resolve SF_b_select_clause SF_b_from_clause SF_b_lateral_view SF_b_join_expression : sf.
  Lemma SF_b_join_clause ts : SF (b_join_clause rec d ts) ts. Proof. unfold b_join_clause. ssweep. Qed.
  Lemma SF_b_where ts : SF (b_where rec d ts) ts. Proof. unfold b_where. ssweep. Qed.
  Lemma SF_b_having ts : SF (b_having rec d ts) ts. Proof. unfold b_having. ssweep. Qed.
  Lemma SF_b_grouping_sets ts : SF (b_grouping_sets rec d ts) ts. Proof. unfold b_grouping_sets. ssweep. Qed.
  Hint Resolve SF_b_join_clause SF_b_where SF_b_having SF_b_grouping_sets : sf.
  Lemma SF_b_group_by ts : SF (b_group_by rec d ts) ts. Proof. unfold b_group_by. ssweep. Qed.
  Lemma SF_by_clause cls k1 k2 item ts : (forall t, SF (item t) t) -> SF (by_clause cls k1 k2 item ts) ts.
  Proof. intros Hi. unfold by_clause. ssweep. Qed.
  Lemma SF_b_order_by ts : SF (b_order_by rec d ts) ts. Proof. apply SF_by_clause. intros; ssweep. Qed.
  Lemma SF_b_sort_by ts : SF (b_sort_by rec d ts) ts. Proof. apply SF_by_clause. intros; ssweep. Qed.
  Lemma SF_b_distribute_by ts : SF (b_distribute_by rec d ts) ts. Proof. apply SF_by_clause. intros; ssweep. Qed.
  Lemma SF_b_cluster_by ts : SF (b_cluster_by rec d ts) ts. Proof. apply SF_by_clause. intros; ssweep. Qed.
  Hint Resolve SF_b_group_by SF_b_order_by SF_b_sort_by SF_b_distribute_by SF_b_cluster_by : sf.
  Lemma SF_b_with_table ts : SF (b_with_table rec d ts) ts. Proof. unfold b_with_table. ssweep. Qed.
  Lemma SF_b_with_clause ts : SF (b_with_clause rec d ts) ts. Proof. unfold b_with_clause. ssweep. Qed.
  Lemma SF_while_clause cond item : (forall t, SF (item t) t) -> forall n ts acc, SF (while_clause n cond item ts acc) ts.
  Proof. intros Hi. induction n as [|n IH]; intros ts acc; cbn [while_clause]; ssweep. Qed.
  Hint Resolve SF_b_with_table SF_b_with_clause : sf.

  Ltac scallee_ho ::=
    lazymatch goal with
    | |- SF (sep_list _ _ _) _ => apply SF_sep_list; intros; ssweep
    | |- SF (sep_more _ _ _ _ _) _ => apply SF_sep_more; intros; ssweep
    | |- SF (args_list _ _) _ => apply SF_args_list; intros; ssweep
    | |- SF (call_args _ _ _) _ => apply SF_call_args; intros; ssweep
    | |- SF (opt_list _ _ _) _ => apply SF_opt_list; intros; ssweep
    | |- SF (compute_loop _ _ _ _ _) _ => apply SF_compute_loop; intros; ssweep
    | |- SF (left_loop _ _ _ _ _) _ => apply SF_left_loop; intros; ssweep
    | |- SF (while_clause _ _ _ _ _) _ => apply SF_while_clause; intros; ssweep
    | |- SF (by_clause _ _ _ _ _) _ => apply SF_by_clause; intros; ssweep
    end.

  (* the bracket stack of _parse_single_select_statement: the cursor that is finally returned is the OUTERMOST one *)
  Definition outer (stack : list toks) (inner : toks) : toks := match stack with [] => inner | _ => last stack [] end.
  Lemma strip_parens_outer : forall n inner stack,
    match strip_parens n inner stack with Ok (i', s') => sfx (outer s' i') (outer stack inner) | Err _ => True end.
  Proof.
    induction n as [|n IH]; intros inner stack; cbn [strip_parens]; [exact I|].
    destruct (peek_mark M_PAREN inner); [|apply sfx_refl].
    pose proof (SF_pop_children inner) as Hp. destruct (pop_children inner) as [[ch rest]|e]; [|exact I]. sf_unfold_in Hp.
    specialize (IH ch (rest :: stack)). destruct (strip_parens n ch (rest :: stack)) as [[i' s']|e]; [|exact I].
    eapply sfx_trans; [exact IH|]. destruct stack as [|x stack]; [exact Hp|]. apply sfx_refl.
  Qed.
  Lemma close_stack_last : forall l x, match close_stack (x :: l) with Ok r => r = last (x :: l) [] | Err _ => True end.
  Proof.
    induction l as [|y l IH]; intros x; [reflexivity|].
    change (close_stack (x :: y :: l)) with (let* _ := close x in close_stack (y :: l)).
    destruct (close x); [|exact I]. specialize (IH y). destruct (close_stack (y :: l)); [|exact I]. exact IH.
  Qed.
  Ltac fact_hook w ::=
    lazymatch w with
    | strip_parens ?n ?i [] => let H := fresh "SP" in pose proof (strip_parens_outer n i []) as H; unfold outer in H
    | close_stack (?x :: ?l) => let H := fresh "CS" in pose proof (close_stack_last l x) as H
    | _ => idtac
    end.
  Lemma SF_b_single_select w ts : SF (b_single_select rec d w ts) ts.
  Proof. unfold b_single_select. destruct w as [w|]; ssweep. Qed.
  Lemma SF_union_loop wc : forall n ts acc, SF (union_loop rec d n wc ts acc) ts.
  Proof. induction n as [|n IH]; intros ts acc; cbn [union_loop]; ssweep. Qed.
  Hint Resolve SF_b_single_select SF_union_loop : sf.
  Lemma SF_b_select w ts : SF (b_select rec d w ts) ts.
  Proof. unfold b_select. destruct w as [w|]; ssweep. Qed.
  Lemma SF_b_column_type ts : SF (b_column_type rec d ts) ts. Proof. unfold b_column_type. ssweep. Qed.
  Hint Resolve SF_b_select SF_b_column_type : sf.

  (* ---------- DDL ---------- *)
  Lemma SF_b_partition already ts : SF (b_partition rec d already ts) ts. Proof. unfold b_partition. ssweep. Qed.
  Lemma SF_fk_action ts : SF (fk_action ts) ts. Proof. unfold fk_action. ssweep. Qed.
  Lemma SF_name_list ts : SF (name_list ts) ts. Proof. unfold name_list. ssweep. Qed.
  Hint Resolve SF_b_partition SF_fk_action SF_name_list : sf.
  Lemma SF_b_foreign_key ts : SF (b_foreign_key ts) ts. Proof. unfold b_foreign_key. ssweep. Qed.
  Lemma SF_index_column ts : SF (index_column ts) ts. Proof. unfold index_column. ssweep. Qed.
  Hint Resolve SF_b_foreign_key SF_index_column : sf.
  Lemma SF_index_columns ts : SF (index_columns ts) ts. Proof. unfold index_columns. ssweep. Qed.
  Lemma SF_index_tail ts : SF (index_tail ts) ts. Proof. unfold index_tail. ssweep. Qed.
  Hint Resolve SF_index_columns SF_index_tail : sf.
  Lemma SF_b_index cls kws named ts : SF (b_index cls kws named ts) ts. Proof. unfold b_index. ssweep. Qed.
  Lemma SF_b_generated ts : SF (b_generated rec d ts) ts. Proof. unfold b_generated. ssweep. Qed.
  Hint Resolve SF_b_index SF_b_generated : sf.
  Lemma SF_column_attrs : forall n a ts, SF (column_attrs rec d n a ts) ts.
  Proof. induction n as [|n IH]; intros a ts; cbn [column_attrs]; ssweep. Qed.
  Hint Resolve SF_column_attrs : sf.
  Lemma SF_b_define_column ts : SF (b_define_column rec d ts) ts. Proof. unfold b_define_column. ssweep. Qed.
  Hint Resolve SF_b_define_column : sf.
  Lemma SF_b_column_or_index ts : SF (b_column_or_index rec d ts) ts. Proof. unfold b_column_or_index. ssweep. Qed.
  Lemma SF_opt_partition ts : SF (opt_partition rec d ts) ts. Proof. unfold opt_partition. ssweep. Qed.
  Lemma SF_values_loop : forall n ts acc, SF (values_loop rec d n ts acc) ts.
  Proof. induction n as [|n IH]; intros ts acc; cbn [values_loop]; ssweep. Qed.
  Hint Resolve SF_b_column_or_index SF_opt_partition SF_values_loop : sf.
  Lemma SF_b_insert w ts : SF (b_insert rec d w ts) ts.
  Proof. unfold b_insert. destruct w as [w|]; ssweep. Qed.
  Lemma SF_b_set ts : SF (b_set ts) ts. Proof. unfold b_set. ssweep. Qed.
  Lemma SF_eq_value ts : SF (eq_value ts) ts. Proof. unfold eq_value. ssweep. Qed.
  Hint Resolve SF_b_insert SF_b_set SF_eq_value : sf.
  Lemma SF_table_options : forall n o ts, SF (table_options rec d n o ts) ts.
  Proof. induction n as [|n IH]; intros o ts; cbn [table_options]; ssweep. Qed.
  Hint Resolve SF_table_options : sf.
  Lemma SF_b_create_table ts : SF (b_create_table rec d ts) ts. Proof. unfold b_create_table. ssweep. Qed.
  Lemma SF_b_drop_table ts : SF (b_drop_table ts) ts. Proof. unfold b_drop_table. ssweep. Qed.
  Lemma SF_b_analyze ts : SF (b_analyze rec d ts) ts. Proof. unfold b_analyze. ssweep. Qed.
  Lemma SF_b_alter_expression ts : SF (b_alter_expression rec d ts) ts. Proof. unfold b_alter_expression. ssweep. Qed.
  Lemma SF_b_alter_table ts : SF (b_alter_table rec d ts) ts. Proof. unfold b_alter_table. ssweep. Qed.
  Lemma SF_table_stmt cls kws ts : SF (table_stmt cls kws ts) ts. Proof. unfold table_stmt. ssweep. Qed.
  Lemma SF_b_use ts : SF (b_use ts) ts. Proof. unfold b_use. ssweep. Qed.
  Lemma SF_update_set_column ts : SF (update_set_column rec d ts) ts. Proof. unfold update_set_column. ssweep. Qed.
  Hint Resolve SF_b_create_table SF_b_drop_table SF_b_analyze SF_b_alter_expression SF_b_alter_table SF_table_stmt SF_b_use SF_update_set_column : sf.
  Lemma SF_b_update w ts : SF (b_update rec d w ts) ts. Proof. unfold b_update. ssweep. Qed.
  Lemma SF_b_delete ts : SF (b_delete rec d ts) ts. Proof. unfold b_delete. ssweep. Qed.
  Lemma SF_b_show_columns ts : SF (b_show_columns rec d ts) ts. Proof. unfold b_show_columns. ssweep. Qed.
  Hint Resolve SF_b_update SF_b_delete SF_b_show_columns : sf.
  Lemma SF_b_statement ts : SF (b_statement rec d ts) ts. Proof. unfold b_statement. ssweep. Qed.
  Hint Resolve SF_b_statement : sf.

  Theorem SF_body f a ts : SF (body rec d f a ts) ts.
  Proof.
    unfold body. destruct f; try solve [eauto 3 with sf].
    destruct a as [b|]; [apply SF_b_array_index|exact I].
  Qed.
End BodySweep.

(* ---------- closing the recursion ---------- *)
Theorem SF_run : forall fuel f d a ts, SF (run fuel f d a ts) ts.
Proof.
  induction fuel as [|n IH]; intros f d a ts; cbn [run]; [exact I|].
  apply SF_body. intros f' d' a' ts'. apply IH.
Qed.

(* readable corollaries *)
Corollary run_suffix fuel f d a ts v rest :
  run fuel f d a ts = Ok (v, rest) -> exists consumed, ts = consumed ++ rest.
Proof. intros H. pose proof (SF_run fuel f d a ts) as S. rewrite H in S. exact S. Qed.
Corollary run_never_longer fuel f d a ts v rest :
  run fuel f d a ts = Ok (v, rest) -> (List.length rest <= List.length ts)%nat.
Proof. intros H. apply sfx_length. eapply run_suffix; eassumption. Qed.

(* the statement loop: what is handed to statement k+1 is a suffix of what statement k was given *)
Lemma statements_loop_prefix_ok : forall n fuel d ts acc vs,
  statements_loop n fuel d ts acc = Ok vs -> exists more, vs = rev acc ++ more.
Proof.
  induction n as [|n IH]; intros fuel d ts acc vs; cbn [statements_loop]; [discriminate|].
  destruct (is_finish ts); [intros H; injection H as <-; exists []; symmetry; apply app_nil_r|].
  destruct (run fuel F_statement d None ts) as [[v t1]|e]; [|discriminate].
  destruct (take_str (S ";") t1) as [b t2]. intros H. apply IH in H. destruct H as [more ->].
  cbn [rev]. rewrite <- app_assoc. eexists. reflexivity.
Qed.
