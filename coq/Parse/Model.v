(* Hand-written executable model of core/parser.py (SQLParser).  One constructor of `fn` per (private) parse
   function that takes part in the recursion; `body` is the open-recursive definition of all of them, `run` closes the
   recursion on explicit fuel.  Operator / enum / name tables come from Gen/Static.v (regenerated from /repo).
   Results are generic trees (Tree/Value.v); field names are the dataclass field names of core/node.py. *)
From Coq Require Import List NArith ZArith Bool String Ascii.
Require Import Base.Common Gen.LexTable Lex.Model Cur.Model Tree.Value Gen.Static Parse.Prim.
Import ListNotations.
Open Scope string_scope.
Open Scope N_scope.
Open Scope list_scope.

Inductive fn : Type :=
| F_function | F_function_and_index | F_in_parenthesis | F_window | F_case | F_sub_query | F_sub_value
| F_general_parenthesis | F_array_index | F_element | F_unary | F_compute | F_keyword_condition
| F_operator_condition | F_logical_not | F_logical_and | F_logical_xor | F_logical_or
| F_order_by_column | F_table_expression | F_from_table | F_with_table | F_with_clause | F_single_select | F_select
| F_partition | F_column_type | F_define_column | F_insert | F_create_table | F_column_or_index | F_alter_expression
| F_statement.

Definition REC := fn -> sqltype -> option value -> toks -> PR.

(* ---------- marks ---------- *)
Definition M_NAME := MARK_NAME. Definition M_PAREN := MARK_PARENTHESIS. Definition M_LITERAL := MARK_LITERAL.
Definition M_ARRAY := MARK_ARRAY_INDEX.

(* ---------- enum / leaf parsers (no recursion) ---------- *)
Fixpoint first_enum (l : list (string * list str)) (ts : toks) : option (string * toks) :=
  match l with
  | [] => None
  | (name, ws) :: l' =>
      let '(b, ts') := take_pats (map PStr ws) ts in
      if b then Some (name, ts') else first_enum l' ts
  end.

Definition parse_insert_type (ts : toks) : PR :=
  let mk n := node "ASTInsertType" [("enum", venum "EnumInsertType" n)] in
  let '(b, t1) := take_up2 (S "INSERT") (S "INTO") ts in
  if b then Ok (mk "INSERT_INTO", t1) else
  let '(b, t1) := take_up3 (S "INSERT") (S "IGNORE") (S "INTO") ts in
  if b then Ok (mk "INSERT_IGNORE_INTO", t1) else
  let '(b, t1) := take_up2 (S "INSERT") (S "OVERWRITE") ts in
  if b then Ok (mk "INSERT_OVERWRITE", t1) else Err ParseErr.

Definition parse_join_type (ts : toks) : PR :=
  match first_enum enum_join_type ts with
  | Some (n, ts') => Ok (node "ASTJoinType" [("enum", venum "EnumJoinType" n)], ts')
  | None => Err ParseErr
  end.

Definition parse_order_type (ts : toks) : PR :=
  let mk n := node "ASTOrderType" [("enum", venum "EnumOrderType" n)] in
  let '(b, t1) := take_up (S "DESC") ts in
  if b then Ok (mk "DESC", t1) else
  let '(b, t1) := take_up (S "ASC") ts in Ok (mk "ASC", t1).

Definition parse_union_type (ts : toks) : PR :=
  match first_enum enum_union_type ts with
  | Some (n, ts') => Ok (node "ASTUnionType" [("enum", venum "EnumUnionType" n)], ts')
  | None => Err ParseErr
  end.

Definition parse_compare_operator (ts : toks) : PR :=
  let* (s, t1) := pop_src ts in
  match assoc_str s compare_operator_hash with
  | Some n => Ok (node "ASTCompareOperator" [("enum", venum "EnumCompareOperator" n)], t1)
  | None => Err ParseErr
  end.

Definition compute_op_node (n : string) : value := node "ASTComputeOperator" [("enum", venum "EnumComputeOperator" n)].
Definition parse_compute_operator (ts : toks) : PR :=
  let* (s, t1) := pop_src ts in
  match assoc_str s compute_operator_hash with
  | Some n => Ok (compute_op_node n, t1)
  | None => Err ParseErr
  end.

Fixpoint first_cast_type (l : list (string * str)) (ts : toks) : option (string * toks) :=
  match l with
  | [] => None
  | (name, w) :: l' => let '(b, ts') := take_pats [PStr w] ts in if b then Some (name, ts') else first_cast_type l' ts
  end.

Definition column_node (t : option str) (c : str) : value :=
  node "ASTColumnNameExpression" [("table_name", vopt_str (option_map unify_name t)); ("column_name", VStr (unify_name c))].

Definition parse_column_name (ts : toks) : PR :=
  if negb (peek_mark M_NAME ts) then Err ParseErr else
  let* (first, t1) := pop_src ts in
  let '(b, t2) := take_str (S ".") t1 in
  if b then
    if negb (peek_mark M_NAME t2) then Err ParseErr else
    let* (c, t3) := pop_src t2 in Ok (column_node (Some first) c, t3)
  else Ok (column_node None first, t1).

Definition parse_column_name_with_table (ts : toks) : PR :=
  let* (t, t1) := pop_src ts in
  let* t2 := match_pats [PStr (S ".")] t1 in
  let* (c, t3) := pop_src t2 in Ok (column_node (Some t) c, t3).

Definition parse_column_name_without_table (ts : toks) : PR :=
  let* (c, t1) := pop_src ts in Ok (column_node None c, t1).

(* `x.strip("`").split(".")` when x contains exactly one dot *)
Definition schema_split (src : str) : option str * str :=
  if Nat.eqb (count_ch 46 src) 1 then
    match split_ch 46 (strip 96 src) [] with
    | [a; b] => (Some a, b)
    | _ => (None, src)
    end
  else (None, src).

Definition table_node (s : option str) (t : str) : value :=
  node "ASTTableNameExpression" [("schema_name", vopt_str (option_map unify_name s)); ("table_name", VStr (unify_name t))].

Definition parse_table_name (ts : toks) : PR :=
  let* (n0, t1) := pop ts in
  if negb (has_mark n0 M_NAME) then Err ParseErr else
  let '(b, t2) := take_str (S ".") t1 in
  if b then
    let* (n2, t3) := pop t2 in Ok (table_node (Some (source n0)) (source n2), t3)
  else
    let '(s, t) := schema_split (source n0) in Ok (table_node s t, t1).

Definition function_name_node (s : option str) (f : str) : value :=
  node "ASTFunctionNameExpression" [("schema_name", vopt_str (option_map unify_name s)); ("function_name", VStr (unify_name f))].

(* returns the node together with (schema, unified function name) for the dispatch in _parse_function_expression *)
Definition parse_function_name (ts : toks) : res (option str * str * toks) :=
  if peek_pats [PMark M_NAME; PStr (S "."); PMark M_NAME] ts then
    let* (s, t1) := pop_src ts in
    let* (f, t2) := pop_src (skipn 1 t1) in Ok (Some (unify_name s), unify_name f, t2)
  else if peek_mark M_NAME ts then
    let* (src, t1) := pop_src ts in
    let '(s, f) := schema_split src in Ok (option_map unify_name s, unify_name f, t1)
  else Err ParseErr.

Definition literal_node (s : str) : value := node "ASTLiteralExpression" [("value", VStr s)].
Definition parse_literal (ts : toks) : PR := let* (s, t1) := pop_src ts in Ok (literal_node s, t1).

Definition int_of (s : str) : res Z := match py_int s with Some z => Ok z | None => Err ParseErr end.   (* SQLParser._pop_as_int *)
Definition as_int (s : str) : res Z := match py_int s with Some z => Ok z | None => Err ParseErr end. (* ASTLiteralExpression.as_int *)

Definition row_item (ty : string) (unb : bool) (num : value) : value :=
  node "ASTWindowRowItem" [("row_type", venum "EnumWindowRowType" ty); ("is_unbounded", vbool unb); ("row_num", num)].

Definition parse_window_row_item (ts : toks) : PR :=
  let '(b, t1) := take_up2 (S "CURRENT") (S "ROW") ts in
  if b then Ok (row_item "CURRENT_ROW" false VNone, t1) else
  let '(b, t1) := take_up (S "UNBOUNDED") ts in
  if b then
    let '(b, t2) := take_up (S "PRECEDING") t1 in
    if b then Ok (row_item "PRECEDING" true VNone, t2) else
    let '(b, t2) := take_up (S "FOLLOWING") t1 in
    if b then Ok (row_item "FOLLOWING" true VNone, t2) else Err ParseErr
  else
    let* (s, t1) := pop_src ts in
    let* z := int_of s in
    let '(b, t2) := take_up (S "PRECEDING") t1 in
    if b then Ok (row_item "PRECEDING" false (VInt z), t2) else
    let '(b, t2) := take_up (S "FOLLOWING") t1 in
    if b then Ok (row_item "FOLLOWING" false (VInt z), t2) else Err ParseErr.

Definition parse_window_row (ts : toks) : PR :=
  let* t1 := match_pats (PS ["ROWS"; "BETWEEN"]) ts in
  let* (a, t2) := parse_window_row_item t1 in
  let* t3 := match_pats (PS ["AND"]) t2 in
  let* (b, t4) := parse_window_row_item t3 in
  Ok (node "ASTWindowRow" [("from_row", a); ("to_row", b)], t4).

Definition wildcard_node (t : option str) : value := node "ASTWildcardExpression" [("table_name", vopt_str t)].

Definition get_alias_name (ts : toks) : res (str * toks) :=
  if negb (peek_mark M_NAME ts) then Err ParseErr else
  let* (s, t1) := pop_src ts in Ok (unify_name s, t1).

Definition alias_node (n : str) : value := node "ASTAlisaExpression" [("name", VStr n)].
Definition parse_alias (ts : toks) : PR :=
  let '(b, t1) := take_up (S "AS") ts in
  if b then let* (n, t2) := get_alias_name t1 in Ok (alias_node n, t2)
  else if peek_mark M_NAME ts && negb (peek_set_up [S "CROSS"; S "USING"; S "SORT"; S "DISTRIBUTE"; S "CLUSTER"] ts)
       then let* (s, t2) := pop_src ts in Ok (alias_node (unify_name s), t2)
  else Ok (VNone, ts).

Definition parse_multi_alias (ts : toks) : PR :=
  let* t1 := match_pats (PS ["AS"]) ts in
  let item t := let* (n, t') := get_alias_name t in Ok (VStr n, t') in
  let* (ns, t2) := sep_list item (S ",") t1 in
  Ok (node "ASTMultiAlisaExpression" [("names", vtuple ns)], t2).

Definition parse_config_string (ts : toks) : res (str * toks) :=
  let* (s0, t1) := pop_src ts in
  (fix go (n : nat) (acc : str) (t : toks) : res (str * toks) :=
     match n with
     | O => Err OutOfFuel
     | Datatypes.S n' =>
         let '(b, t2) := take_str (S ".") t in
         if b then let* (s, t3) := pop_src t2 in go n' (acc ++ S "." ++ s) t3 else
         let '(b, t2) := take_str (S "-") t in
         if b then let* (s, t3) := pop_src t2 in go n' (acc ++ S "-" ++ s) t3 else Ok (acc, t)
     end) (Datatypes.S (List.length t1)) s0 t1.

Definition parse_config_string_expression (ts : toks) : PR :=
  let* (k, t1) := parse_config_string ts in
  let* t2 := match_pats [PStr (S "=")] t1 in
  let* (v, t3) := parse_config_string t2 in
  Ok (node "ASTConfigStringExpression" [("name", VStr k); ("value", VStr v)], t3).

Definition parse_limit (ts : toks) : PR :=
  let '(b, t1) := take_up (S "LIMIT") ts in
  if negb b then Ok (VNone, ts) else
  let mk l o := node "ASTLimitClause" [("limit", VInt l); ("offset", o)] in
  let* (s1, t2) := pop_src t1 in
  let* c1 := as_int s1 in
  let '(b, t3) := take_str (S ",") t2 in
  if b then let* (s2, t4) := pop_src t3 in let* c2 := as_int s2 in Ok (mk c2 (VInt c1), t4) else
  let '(b, t3) := take_up (S "OFFSET") t2 in
  if b then let* (s2, t4) := pop_src t3 in let* c2 := as_int s2 in Ok (mk c1 (VInt c2), t4) else
  Ok (mk c1 VNone, t2).

(* ---------- the operator loop of _parse_compute_expression ---------- *)
Definition op_level (o : string) : N :=
  (fix f (l : list (string * N)) := match l with [] => 0 | (k, v) :: l' => if String.eqb k o then v else f l' end) compute_operator_level.
Definition compute_node (l : value) (o : string) (r : value) : value :=
  node "ASTComputeExpression" [("before_value", l); ("operator", compute_op_node o); ("after_value", r)].
Fixpoint reduce_while (n : N) (pend : list (value * string)) (top : value) : list (value * string) * value :=
  match pend with
  | (e, o) :: rest => if op_level o <=? n then reduce_while n rest (compute_node e o top) else (pend, top)
  | [] => ([], top)
  end.
Fixpoint reduce_all (pend : list (value * string)) (top : value) : value :=
  match pend with (e, o) :: rest => reduce_all rest (compute_node e o top) | [] => top end.
Definition next_compute_op (ts : toks) : option string :=
  match hd_src ts with Some s => assoc_str (upper s) compute_operator_hash | None => None end.
Fixpoint compute_loop (n : nat) (unary : toks -> PR) (pend : list (value * string)) (top : value) (ts : toks) : PR :=
  match n with
  | O => Err OutOfFuel
  | Datatypes.S n' =>
      match next_compute_op ts with
      | Some o =>
          let '(pend', top') := reduce_while (op_level o) pend top in
          let* (v, ts') := unary (skipn 1 ts) in
          compute_loop n' unary ((top', o) :: pend') v ts'
      | None => Ok (reduce_all pend top, ts)
      end
  end.

(* generic left-associative layer:  sub (op sub)*  *)
Fixpoint left_loop (n : nat) (sub : toks -> PR) (op : toks -> option (value -> value -> value) * toks) (acc : value) (ts : toks) : PR :=
  match n with
  | O => Err OutOfFuel
  | Datatypes.S n' =>
      match op ts with
      | (Some mk, ts1) => let* (v, ts2) := sub ts1 in left_loop n' sub op (mk acc v) ts2
      | (None, _) => Ok (acc, ts)
      end
  end.

Definition bin_node (cls : string) (l r : value) : value := node cls [("before_value", l); ("after_value", r)].
Definition kw_node (cls : string) (neg : bool) (l r : value) : value :=
  node cls [("is_not", vbool neg); ("before_value", l); ("after_value", r)].

Definition KW_CHAIN : list str := [S "NOT"; S "BETWEEN"; S "IS"; S "IN"; S "LIKE"; S "RLIKE"; S "REGEXP"].

Definition opt_list (cond : bool) (p : toks -> res (list value * toks)) (ts : toks) : res (list value * toks) :=
  if cond then p ts else Ok ([], ts).

(* ---------- the recursive part ---------- *)
Section Body.
  Variable rec : REC.
  Variable d : sqltype.

  Definition r (f : fn) (ts : toks) : PR := rec f d None ts.
  Definition r1 (f : fn) (a : value) (ts : toks) : PR := rec f d (Some a) ts.

  (* comma separated arguments: [first] (, next)*  where the first one is only parsed when the scanner is not finished *)
  Definition args_list (item : toks -> PR) (ts : toks) : res (list value * toks) :=
    if is_finish ts then Ok ([], ts) else sep_list item (S ",") ts.
  (* the IF() / function-call shape:  [item] (, item)*  -- note the first item is optional but the loop still runs *)
  Definition call_args (item : toks -> PR) (keep_first : bool) (ts : toks) : res (list value * toks) :=
    if is_finish ts then sep_more (Datatypes.S (List.length ts)) item (S ",") ts []
    else let* (v, t1) := item ts in sep_more (Datatypes.S (List.length t1)) item (S ",") t1 (if keep_first then [v] else []).

  Definition b_extract (ts : toks) : PR :=
    let* (inner, rest) := pop_children ts in
    let* (n, i1) := r F_compute inner in
    let* i2 := match_pats (PS ["FROM"]) i1 in
    let* (c, i3) := r F_compute i2 in
    let* _ := close i3 in
    Ok (node "ASTExtractFunctionExpression" [("extract_name", n); ("column_expression", c)], rest).

  Definition b_cast (ts : toks) : PR :=
    let* (inner, rest) := pop_children ts in
    let* (c, i1) := r F_compute inner in
    let* i2 := match_pats (PS ["AS"]) i1 in
    let '(signed, i3) := take_up (S "SIGNED") i2 in
    let* (ty, i4) := match first_cast_type enum_cast_data_type i3 with Some x => Ok x | None => Err ParseErr end in
    let* (params, i5) :=
      if peek_mark M_PAREN i4 then
        let* (p, i5) := pop_children i4 in
        let item t := let* (s, t') := pop_src t in let* z := int_of s in Ok (VInt z, t') in
        let* (vs, p1) := call_args item true p in
        let* _ := close p1 in
        Ok (vtuple vs, i5)
      else Ok (VNone, i4) in
    let* _ := close i5 in
    Ok (node "ASTCastFunctionExpression"
          [("column_expression", c);
           ("cast_type", node "ASTCastDataType" [("signed", vbool signed); ("type", venum "EnumCastDataType" ty); ("params", params)])],
        rest).

  Definition b_if (ts : toks) : PR :=
    let* (inner, rest) := pop_children ts in
    let* (vs, i1) := call_args (r F_logical_or) true inner in
    let* _ := close i1 in
    Ok (node "ASTNormalFunctionExpression" [("name", function_name_node None (S "IF")); ("params", vtuple vs)], rest).

  Definition b_function (ts : toks) : PR :=
    let* (schema, fname, t1) := parse_function_name ts in
    let up := upper fname in
    if str_eqb up (S "CAST") then b_cast t1 else
    if str_eqb up (S "EXTRACT") then b_extract t1 else
    if str_eqb up (S "IF") then b_if t1 else
    let* (inner0, rest) := pop_children t1 in
    let inner := if str_eqb up (S "SUBSTRING")
                 then map (fun t => if mem_str (upper (source t)) [S "FROM"; S "FOR"] then Leaf (S ",") 0 else t) inner0
                 else inner0 in
    let is_agg := mem_str up aggregation_function_name_set in
    let '(distinct, i1) := if is_agg then take_up (S "DISTINCT") inner else (false, inner) in
    let* (vs, i2) := call_args (r F_logical_or) true i1 in
    let* _ := close i2 in
    let name := function_name_node schema fname in
    match schema with
    | None => if is_agg
              then Ok (node "ASTAggregationFunction" [("name", name); ("params", vtuple vs); ("is_distinct", vbool distinct)], rest)
              else Ok (node "ASTNormalFunctionExpression" [("name", name); ("params", vtuple vs)], rest)
    | Some _ => Ok (node "ASTNormalFunctionExpression" [("name", name); ("params", vtuple vs)], rest)
    end.

  Definition b_array_index (before : value) (ts : toks) : PR :=
    if negb (peek_mark M_ARRAY ts) then Ok (before, ts) else
    let* (inner, rest) := pop_children ts in
    let* (idx, i1) := r F_compute inner in
    let* _ := close i1 in
    Ok (node "ASTIndexExpression" [("array", before); ("idx", idx)], rest).

  Definition b_function_and_index (ts : toks) : PR :=
    let* (f, t1) := r F_function ts in r1 F_array_index f t1.

  Definition is_select_group (ts : toks) : res bool :=
    let* ch := peek_children ts in Ok (peek_set_up [S "SELECT"; S "WITH"] ch).

  Definition b_in_parenthesis (ts : toks) : PR :=
    if negb (peek_mark M_PAREN ts) then Err ParseErr else
    let* b := is_select_group ts in if b then r F_sub_query ts else r F_sub_value ts.

  Definition b_window (ts : toks) : PR :=
    let* (f, t1) := r F_function_and_index ts in
    let* t2 := match_pats (PS ["OVER"]) t1 in
    let* (p, rest) := pop_children t2 in
    let '(b, p1) := take_up2 (S "PARTITION") (S "BY") p in
    let* (parts, p2) := opt_list b (sep_list (r F_compute) (S ",")) p1 in
    let '(b, p3) := take_up2 (S "ORDER") (S "BY") p2 in
    let* (ords, p4) := opt_list b (sep_list (r F_order_by_column) (S ",")) p3 in
    let* (rows, p5) := if peek_up2 (S "ROWS") (S "BETWEEN") p4 then parse_window_row p4 else Ok (VNone, p4) in
    let* _ := close p5 in
    Ok (node "ASTWindowExpression" [("window_function", f); ("partition_by_columns", vtuple parts);
                                    ("order_by_columns", vtuple ords); ("row_expression", rows)], rest).

  Fixpoint when_loop (n : nat) (cls : string) (ts : toks) (acc : list value) : res (list value * toks) :=
    match n with
    | O => Err OutOfFuel
    | Datatypes.S n' =>
        let '(b, t1) := take_up (S "WHEN") ts in
        if negb b then Ok (rev acc, ts) else
        let* (w, t2) := r F_logical_or t1 in
        let* t3 := match_pats (PS ["THEN"]) t2 in
        let* (th, t4) := r F_logical_or t3 in
        when_loop n' cls t4 (node cls [("when", w); ("then", th)] :: acc)
    end.

  Definition b_case (ts : toks) : PR :=
    let* t1 := match_pats (PS ["CASE"]) ts in
    let tail cls t :=
      let* (cases, t2) := when_loop (Datatypes.S (List.length t)) cls t [] in
      let '(b, t3) := take_up (S "ELSE") t2 in
      let* (els, t4) := if b then r F_logical_or t3 else Ok (VNone, t3) in
      let* t5 := match_pats (PS ["END"]) t4 in Ok (cases, els, t5) in
    if peek_up (S "WHEN") t1 then
      let* (cases, els, t5) := tail "ASTCaseConditionItem" t1 in
      Ok (node "ASTCaseConditionExpression" [("cases", vtuple cases); ("else_value", els)], t5)
    else
      let* (v, t2) := r F_logical_or t1 in
      let* (cases, els, t5) := tail "ASTCaseValueItem" t2 in
      Ok (node "ASTCaseValueExpression" [("case_value", v); ("cases", vtuple cases); ("else_value", els)], t5).

  Definition b_sub_query (ts : toks) : PR :=
    let* (inner, rest) := pop_children ts in
    let* (q, i1) := r F_select inner in
    let* _ := close i1 in
    Ok (node "ASTSubQueryExpression" [("statement", q)], rest).

  Definition b_sub_value (ts : toks) : PR :=
    let* (segs, rest) := pop_split (S ",") ts in
    let* vs := each_closed (r F_compute) segs in
    Ok (node "ASTSubValueExpression" [("values", vtuple vs)], rest).

  Definition b_general_parenthesis (ts : toks) : PR :=
    let* b := is_select_group ts in
    if b then r F_sub_query ts else
    let* (inner, rest) := pop_children ts in
    let* (v, i1) := r F_logical_or inner in
    let* _ := close i1 in Ok (v, rest).

  Definition b_element (ts : toks) : PR :=
    match ts with
    | [] => Err ParseErr
    | n0 :: after0 =>
        if has_mark n0 M_LITERAL then parse_literal ts else
        if has_mark n0 M_PAREN then r F_general_parenthesis ts else
        if source_equal_upper n0 (S "CASE") then r F_case ts else
        if source_equal n0 (S "*") then Ok (wildcard_node None, after0) else
        let n1 := nth_error ts 1 in
        let n2 := nth_error ts 2 in
        let is_paren o := match o with Some t => has_mark t M_PAREN | None => false end in
        if is_paren n1 then
          match n2 with
          | Some t2 => if source_equal_upper t2 (S "OVER") then r F_window ts else r F_function_and_index ts
          | None => r F_function_and_index ts
          end
        else
          match n1 with
          | Some t1 =>
              if source_equal t1 (S ".") then
                match n2 with
                | None => Err ParseErr
                | Some t2 =>
                    if has_mark t2 M_NAME then
                      if is_paren (nth_error ts 3) then r F_function_and_index ts
                      else let* (c, t') := parse_column_name_with_table ts in r1 F_array_index c t'
                    else if source_equal t2 (S "*") then Ok (wildcard_node (Some (unify_name (source n0))), skipn 3 ts)
                    else Err ParseErr
                end
              else let* (c, t') := parse_column_name_without_table ts in r1 F_array_index c t'
          | None => let* (c, t') := parse_column_name_without_table ts in r1 F_array_index c t'
          end
    end.

  Definition b_unary (ts : toks) : PR :=
    if peek_set (unary_operator_set d) ts then
      let* (o, t1) := parse_compute_operator ts in
      let* (e, t2) := r F_unary t1 in
      Ok (node "ASTUnaryExpression" [("operator", o); ("expression", e)], t2)
    else r F_element ts.

  Definition b_compute (ts : toks) : PR :=
    let* (v, t1) := r F_unary ts in compute_loop (Datatypes.S (List.length t1)) (r F_unary) [] v t1.

  Definition b_keyword_condition (before : option value) (ts : toks) : PR :=
    let chain (res_v : value) (t : toks) : PR :=
      match hd_src t with
      | Some s => if mem_str (upper s) KW_CHAIN then r1 F_keyword_condition res_v t else Ok (res_v, t)
      | None => Ok (res_v, t)
      end in
    let first_exists := match before with None => take_up (S "EXISTS") ts | Some _ => (false, ts) end in
    if fst first_exists then
      let* (q, t2) := r F_sub_query (snd first_exists) in chain (node "ASTExistsExpression" [("value", q)]) t2
    else
      let* (bv, t1) := (match before with Some b => Ok (b, ts) | None => r F_compute ts end) in
      let '(is_not, t2) := take_set_up (not_operator_set d) t1 in
      match t2 with
      | [] => if is_not then Err ParseErr else Ok (bv, t2)
      | nx :: t3 =>
          let k := upper (source nx) in
          if str_eqb k (S "BETWEEN") then
            let* (lo, t4) := r F_compute t3 in
            let* t5 := match_pats (PS ["AND"]) t4 in
            let* (hi, t6) := r F_compute t5 in
            chain (node "ASTBetweenExpression" [("is_not", vbool is_not); ("before_value", bv); ("from_value", lo); ("to_value", hi)]) t6
          else if str_eqb k (S "IS") then
            let '(neg, t4) := if is_not then (true, t3) else take_up (S "NOT") t3 in
            let* (a, t5) := r F_compute t4 in chain (kw_node "ASTIsExpression" neg bv a) t5
          else if str_eqb k (S "IN") then
            let* (a, t4) := r F_in_parenthesis t3 in chain (kw_node "ASTInExpression" is_not bv a) t4
          else if str_eqb k (S "LIKE") then
            let* (a, t4) := r F_compute t3 in chain (kw_node "ASTLikeExpression" is_not bv a) t4
          else if str_eqb k (S "RLIKE") then
            let* (a, t4) := r F_compute t3 in chain (kw_node "ASTRlikeExpression" is_not bv a) t4
          else if str_eqb k (S "REGEXP") then
            let* (a, t4) := r F_compute t3 in chain (kw_node "ASTRegexpExpression" is_not bv a) t4
          else if is_not then Err ParseErr else Ok (bv, t2)
      end.

  Definition b_operator_condition (ts : toks) : PR :=
    let* (v, t1) := r F_keyword_condition ts in
    let op t := if peek_set compare_operator_set t then
                  match parse_compare_operator t with
                  | Ok (o, t') => (Some (fun l rr => node "ASTOperatorConditionExpression" [("before_value", l); ("operator", o); ("after_value", rr)]), t')
                  | Err _ => (None, t)
                  end
                else (None, t) in
    left_loop (Datatypes.S (List.length t1)) (r F_keyword_condition) op v t1.

  Definition b_logical_not (ts : toks) : PR :=
    let '(b, t1) := take_set_up (not_operator_set d) ts in
    if b then let* (e, t2) := r F_logical_not t1 in Ok (node "ASTLogicalNotExpression" [("expression", e)], t2)
    else r F_operator_condition ts.

  Definition layer (cls : string) (sub : fn) (kws : list str) (ts : toks) : PR :=
    let* (v, t1) := r sub ts in
    let op t := let '(b, t') := take_set_up kws t in if b then (Some (bin_node cls), t') else (None, t) in
    left_loop (Datatypes.S (List.length t1)) (r sub) op v t1.

  Definition b_logical_and := layer "ASTLogicalAndExpression" F_logical_not [S "AND"; S "&&"].
  Definition b_logical_xor := layer "ASTLogicalXorExpression" F_logical_and [S "XOR"].
  Definition b_logical_or := layer "ASTLogicalOrExpression" F_logical_xor [S "OR"; S "||"].

  Definition b_order_by_column (ts : toks) : PR :=
    let* (c, t1) := r F_compute ts in
    let* (o, t2) := parse_order_type t1 in
    let '(nf, t3) := take_up2 (S "NULLS") (S "FIRST") t2 in
    let '(nl, t4) := take_up2 (S "NULLS") (S "LAST") t3 in
    if nf && nl then Err ParseErr else
    Ok (node "ASTOrderByColumn" [("column", c); ("order", o); ("nulls_first", vbool nf); ("nulls_last", vbool nl)], t4).

  (* ---------- FROM / JOIN / clauses ---------- *)
  Definition b_table_expression (ts : toks) : PR :=
    let* b := is_select_group ts in
    if b then r F_sub_query ts else
    if peek_mark M_PAREN ts then
      (* extra brackets: parsed in a new scanner over the group, which is closed; the caller goes on behind the group *)
      let* (inner, rest) := pop_children ts in
      let* (v, i1) := r F_table_expression inner in
      let* _ := close i1 in Ok (v, rest)
    else parse_table_name ts.

  Definition b_from_table (ts : toks) : PR :=
    let* (name, t1) := r F_table_expression ts in
    let* (a, t2) := parse_alias t1 in
    Ok (node "ASTFromTable" [("name", name); ("alias", a)], t2).

  Definition b_select_column (ts : toks) : PR :=
    let* (v, t1) := r F_logical_or ts in
    let* (a, t2) := parse_alias t1 in
    Ok (node "ASTSelectColumn" [("value", v); ("alias", a)], t2).

  Definition b_select_clause (ts : toks) : PR :=
    let* t1 := match_pats (PS ["SELECT"]) ts in
    let '(distinct, t2) := take_up (S "DISTINCT") t1 in
    let* (cols, t3) := sep_list b_select_column (S ",") t2 in
    Ok (node "ASTSelectClause" [("distinct", vbool distinct); ("columns", vtuple cols)], t3).

  Definition b_from_clause (ts : toks) : PR :=
    let* t1 := match_pats (PS ["FROM"]) ts in
    let* (tables, t2) := sep_list (r F_from_table) (S ",") t1 in
    Ok (node "ASTFromClause" [("tables", vtuple tables)], t2).

  Definition b_lateral_view (ts : toks) : PR :=
    let* t1 := match_pats (PS ["LATERAL"; "VIEW"]) ts in
    let '(outer, t2) := take_up (S "OUTER") t1 in
    let* (f, t3) := r F_function t2 in
    let* (vn, t4) := pop_src t3 in
    let* (a, t5) := parse_multi_alias t4 in
    Ok (node "ASTLateralViewClause" [("outer", vbool outer); ("function", f); ("view_name", VStr (unify_name vn)); ("alias", a)], t5).

  Definition b_join_expression (ts : toks) : PR :=
    if peek_up (S "ON") ts then
      let* t1 := match_pats (PS ["ON"]) ts in
      let* (c, t2) := r F_logical_or t1 in Ok (node "ASTJoinOnExpression" [("condition", c)], t2)
    else if peek_up (S "USING") ts then
      let* (f, t1) := r F_function ts in Ok (node "ASTJoinUsingExpression" [("using_function", f)], t1)
    else Err ParseErr.

  Definition b_join_clause (ts : toks) : PR :=
    let* (jt, t1) := parse_join_type ts in
    let* (tb, t2) := r F_from_table t1 in
    let* (rule, t3) := if peek_set_up [S "ON"; S "USING"] t2 then b_join_expression t2 else Ok (VNone, t2) in
    Ok (node "ASTJoinClause" [("type", jt); ("table", tb); ("rule", rule)], t3).

  Definition b_where (ts : toks) : PR :=
    let '(b, t1) := take_up (S "WHERE") ts in
    if negb b then Ok (VNone, ts) else
    let* (c, t2) := r F_logical_or t1 in Ok (node "ASTWhereClause" [("condition", c)], t2).

  Definition b_having (ts : toks) : PR :=
    let '(b, t1) := take_up (S "HAVING") ts in
    if negb b then Ok (VNone, ts) else
    let* (c, t2) := r F_logical_or t1 in Ok (node "ASTHavingClause" [("condition", c)], t2).

  Definition b_grouping_sets (ts : toks) : PR :=
    let* t1 := match_pats (PS ["GROUPING"; "SETS"]) ts in
    let* (segs, rest) := pop_split (S ",") t1 in
    let one (sg : toks) : PR :=
      if peek_mark M_PAREN sg then
        let* (inner, sg1) := pop_split (S ",") sg in
        let* vs := each_closed (r F_compute) inner in Ok (vtuple vs, sg1)
      else let* (v, sg1) := r F_compute sg in Ok (vtuple [v], sg1) in
    let* gs := each_closed one segs in
    Ok (node "ASTGroupingSets" [("grouping_list", vtuple gs)], rest).

  Definition b_group_by (ts : toks) : PR :=
    let '(b, t1) := take_up2 (S "GROUP") (S "BY") ts in
    if negb b then Ok (VNone, ts) else
    let* (cols, t2) := if peek_up2 (S "GROUPING") (S "SETS") t1 then Ok ([], t1) else sep_list (r F_compute) (S ",") t1 in
    let* (gs, t3) := if peek_up2 (S "GROUPING") (S "SETS") t2 then b_grouping_sets t2 else Ok (VNone, t2) in
    let '(cube, t4) := take_up2 (S "WITH") (S "CUBE") t3 in
    let '(rollup, t5) := take_up2 (S "WITH") (S "ROLLUP") t4 in
    Ok (node "ASTGroupByClause" [("columns", vtuple cols); ("grouping_sets", gs); ("with_cube", vbool cube); ("with_rollup", vbool rollup)], t5).

  Definition by_clause (cls : string) (k1 k2 : string) (item : toks -> PR) (ts : toks) : PR :=
    let '(b, t1) := take_up2 (S k1) (S k2) ts in
    if negb b then Ok (VNone, ts) else
    let* (cols, t2) := sep_list item (S ",") t1 in Ok (node cls [("columns", vtuple cols)], t2).
  Definition b_order_by := by_clause "ASTOrderByClause" "ORDER" "BY" (r F_order_by_column).
  Definition b_sort_by := by_clause "ASTSortByClause" "SORT" "BY" (r F_order_by_column).
  Definition b_distribute_by := by_clause "ASTDistributeByClause" "DISTRIBUTE" "BY" (r F_compute).
  Definition b_cluster_by := by_clause "ASTClusterByClause" "CLUSTER" "BY" (r F_compute).

  Definition empty_with : value := node "ASTWithClause" [("tables", vtuple [])].

  Definition b_with_table (ts : toks) : PR :=
    let* (n, t1) := pop_src ts in
    let* t2 := match_pats (PS ["AS"]) t1 in
    let* (inner, rest) := pop_children t2 in
    let* (q, i1) := r1 F_select empty_with inner in
    let* _ := close i1 in
    Ok (node "ASTWithTable" [("name", VStr (unify_name n)); ("statement", q)], rest).

  Definition b_with_clause (ts : toks) : PR :=
    let '(b, t1) := take_up (S "WITH") ts in
    if negb b then Ok (empty_with, ts) else
    let* (tables, t2) := sep_list (r F_with_table) (S ",") t1 in
    Ok (node "ASTWithClause" [("tables", vtuple tables)], t2).

  (* strip any number of enclosing bracket groups: returns the innermost cursor and the remainders of the enclosing
     cursors, innermost first (they are closed after the clauses have been read) *)
  Fixpoint strip_parens (n : nat) (inner : toks) (stack : list toks) : res (toks * list toks) :=
    match n with
    | O => Err OutOfFuel
    | Datatypes.S n' =>
        if peek_mark M_PAREN inner then
          let* (ch, rest) := pop_children inner in strip_parens n' ch (rest :: stack)
        else Ok (inner, stack)
    end.
  Fixpoint tok_depth (t : tok) : nat :=
    match t with Leaf _ _ => O | Group _ ts => Datatypes.S (fold_right (fun x m => Nat.max (tok_depth x) m) O ts) end.

  Fixpoint while_clause (n : nat) (cond : toks -> bool) (item : toks -> PR) (ts : toks) (acc : list value) : res (list value * toks) :=
    match n with
    | O => Err OutOfFuel
    | Datatypes.S n' =>
        if cond ts then let* (v, t1) := item ts in while_clause n' cond item t1 (v :: acc) else Ok (rev acc, ts)
    end.

  (* while parenthesis_stack: pop().close() -- the outermost remainder is the statement's own cursor and is returned *)
  Fixpoint close_stack (l : list toks) : res toks :=
    match l with
    | [] => Ok []
    | [outer] => Ok outer
    | x :: l' => let* _ := close x in close_stack l'
    end.

  Definition b_single_select (w : option value) (ts : toks) : PR :=
    let* (wc, t0) := match w with Some x => Ok (x, ts) | None => b_with_clause ts end in
    let* (inner, stack) := strip_parens (Datatypes.S (Datatypes.S (match t0 with t :: _ => tok_depth t | [] => O end))) t0 [] in
    let* (sel, i1) := b_select_clause inner in
    let* (frm, i2) := if peek_up (S "FROM") i1 then b_from_clause i1 else Ok (VNone, i1) in
    let* (lats, i3) := while_clause (Datatypes.S (List.length i2)) (peek_up2 (S "LATERAL") (S "VIEW")) b_lateral_view i2 [] in
    let* (joins, i4) := while_clause (Datatypes.S (List.length i3))
                          (peek_set_up [S "JOIN"; S "INNER"; S "LEFT"; S "RIGHT"; S "FULL"; S "CROSS"]) b_join_clause i3 [] in
    let* (wh, i5) := b_where i4 in
    let* (gb, i6) := b_group_by i5 in
    let* (hv, i7) := b_having i6 in
    let* (ob, i8) := b_order_by i7 in
    let* (sb, i9) := b_sort_by i8 in
    let* (db, i10) := b_distribute_by i9 in
    let* (cb, i11) := b_cluster_by i10 in
    let* (lm, i12) := parse_limit i11 in
    (* while parenthesis_stack: pop().close()  -- innermost first; the statement's own cursor is not closed here *)
    let* rest :=
      match stack with
      | [] => Ok i12
      | _ => let* _ := close i12 in close_stack stack
      end in
    Ok (node "ASTSingleSelectStatement"
          [("with_clause", wc); ("select_clause", sel); ("from_clause", frm); ("lateral_view_clauses", vtuple lats);
           ("join_clauses", vtuple joins); ("where_clause", wh); ("group_by_clause", gb); ("having_clause", hv);
           ("order_by_clause", ob); ("sort_by_clause", sb); ("distribute_by_clause", db); ("cluster_by_clause", cb);
           ("limit_clause", lm)], rest).

  Fixpoint union_loop (n : nat) (wc : value) (ts : toks) (acc : list value) : res (list value * toks) :=
    match n with
    | O => Err OutOfFuel
    | Datatypes.S n' =>
        if peek_set_up [S "UNION"; S "EXCEPT"; S "INTERSECT"; S "MINUS"] ts then
          let* (u, t1) := parse_union_type ts in
          let* (q, t2) := r1 F_single_select wc t1 in union_loop n' wc t2 (q :: u :: acc)
        else Ok (rev acc, ts)
    end.

  Definition b_select (w : option value) (ts : toks) : PR :=
    let* (wc, t0) := match w with Some x => Ok (x, ts) | None => b_with_clause ts end in
    let* (q, t1) := r1 F_single_select wc t0 in
    let* (more, t2) := union_loop (Datatypes.S (List.length t1)) wc t1 [] in
    match more with
    | [] => Ok (q, t2)
    | _ => Ok (node "ASTUnionSelectStatement" [("with_clause", wc); ("elements", vtuple (q :: more))], t2)
    end.

  (* ---------- DDL pieces ---------- *)
  Definition b_column_type (ts : toks) : PR :=
    let* (n, t1) := pop_src ts in
    if peek_mark M_PAREN t1 then
      let* (segs, t2) := pop_split (S ",") t1 in
      let* vs := each_closed (r F_compute) segs in
      Ok (node "ASTColumnTypeExpression" [("name", VStr n); ("params", vtuple vs)], t2)
    else Ok (node "ASTColumnTypeExpression" [("name", VStr n)], t1).      (* params: dataclass default *)

  Fixpoint partition_items (one : toks -> res (value * bool * toks)) (l : list toks) (acc : list value) (dy nd : bool)
    : res (list value * bool * bool) :=
    match l with
    | [] => Ok (rev acc, dy, nd)
    | sg :: l' => let* (v, isdyn, s') := one sg in let* _ := close s' in
                  partition_items one l' (v :: acc) (dy || isdyn) (nd || negb isdyn)
    end.

  Definition b_partition (already : bool) (ts : toks) : PR :=
    let* t1 := if already then Ok ts else match_pats (PS ["PARTITION"]) ts in
    let* (segs, rest) := pop_split (S ",") t1 in
    let one (sg : toks) : res (value * bool * toks) :=
      let* (bv, s1) := r F_compute sg in
      if peek_set compare_operator_set s1 then
        let* (o, s2) := parse_compare_operator s1 in
        let* (av, s3) := r F_compute s2 in
        Ok (node "ASTOperatorConditionExpression" [("before_value", bv); ("operator", o); ("after_value", av)], false, s3)
      else Ok (bv, true, s1) in
    let* (parts, dyn, nondyn) := partition_items one segs [] false false in
    if dyn && nondyn then Err ParseErr else
    Ok (node "ASTPartitionExpression" [("partitions", vtuple parts)], rest).

  Definition fk_action (ts : toks) : res (str * toks) :=
    let '(b, t1) := take_up2 (S "NO") (S "ACTION") ts in if b then Ok (S "NO ACTION", t1) else
    let '(b, t1) := take_up2 (S "SET") (S "NULL") ts in if b then Ok (S "SET NULL", t1) else
    let '(b, t1) := take_up (S "CASCADE") ts in if b then Ok (S "CASCADE", t1) else
    let '(b, t1) := take_up (S "RESTRICT") ts in if b then Ok (S "RESTRICT", t1) else Err ParseErr.

  Definition name_list (ts : toks) : res (list value * toks) :=
    let* (segs, rest) := pop_split (S ",") ts in
    let* vs := each_closed (fun sg => let* (s, sg') := pop_src sg in Ok (VStr s, sg')) segs in Ok (vs, rest).

  Definition b_foreign_key (ts : toks) : PR :=
    let* t1 := match_pats (PS ["CONSTRAINT"]) ts in
    let* (cn, t2) := pop_src t1 in
    let* t3 := match_pats (PS ["FOREIGN"; "KEY"]) t2 in
    let* (slaves, t4) := name_list t3 in
    let* t5 := match_pats (PS ["REFERENCES"]) t4 in
    let* (mt, t6) := pop_src t5 in
    let* (masters, t7) := name_list t6 in
    let '(b, t8) := take_up2 (S "ON") (S "DELETE") t7 in
    let* (ondel, t9) := if b then let* (a, t') := fk_action t8 in Ok (VStr a, t') else Ok (VNone, t8) in
    let '(b, t10) := take_up2 (S "ON") (S "UPDATE") t9 in
    let* (onupd, t11) := if b then let* (a, t') := fk_action t10 in Ok (VStr a, t') else Ok (VNone, t10) in
    Ok (node "ASTForeignKeyExpression" [("constraint_name", VStr cn); ("slave_columns", vtuple slaves); ("master_table_name", VStr mt);
                                        ("master_columns", vtuple masters); ("on_delete", ondel); ("on_update", onupd)], t11).

  Definition index_column (ts : toks) : PR :=
    let* (n, t1) := pop_src ts in
    if peek_mark M_PAREN t1 then
      let* (inner, t2) := pop_children t1 in
      let* (s, i1) := pop_src inner in
      let* z := int_of s in
      let* _ := close i1 in
      Ok (node "ASTIndexColumn" [("name", VStr (unify_name n)); ("max_length", VInt z)], t2)
    else Ok (node "ASTIndexColumn" [("name", VStr (unify_name n)); ("max_length", VNone)], t1).

  Definition index_columns (ts : toks) : res (value * toks) :=
    let* (segs, rest) := pop_split (S ",") ts in
    let* vs := each_closed index_column segs in Ok (vtuple vs, rest).

  Definition index_tail (ts : toks) : res (value * value * value * toks) :=
    let '(b, t1) := take_up (S "USING") ts in
    let* (usg, t2) := if b then let* (s, t') := pop_src t1 in Ok (VStr s, t') else Ok (VNone, t1) in
    let '(b, t3) := take_up (S "COMMENT") t2 in
    let* (comment, t4) := if b then let* (s, t') := pop_src t3 in Ok (VStr s, t') else Ok (VNone, t3) in
    let '(b, t5) := take_up2 (S "KEY_BLOCK_SIZE") (S "=") t4 in
    let* (kbs, t6) := if b then let* (s, t') := pop_src t5 in let* z := int_of s in Ok (VInt z, t') else Ok (VNone, t5) in
    Ok (usg, comment, kbs, t6).

  Definition b_index (cls : string) (kws : list string) (named : bool) (ts : toks) : PR :=
    let* t1 := match_pats (PS kws) ts in
    let* (name, t2) := if named then let* (s, t') := pop_src t1 in Ok ([("name", VStr s)], t') else Ok ([], t1) in
    let* (cols, t3) := index_columns t2 in
    let* (usg, comment, kbs, t4) := index_tail t3 in
    Ok (node cls (name ++ [("columns", cols); ("using", usg); ("comment", comment); ("key_block_size", kbs)]), t4).

  Definition b_generated (ts : toks) : PR :=
    let '(b, t1) := take_up3 (S "GENERATED") (S "ALWAYS") (S "AS") ts in
    if negb b then Ok (VNone, ts) else
    let* (inner, t2) := pop_children t1 in
    let* (e, i1) := r F_compute inner in
    let* _ := close i1 in
    let* (m, t3) := pop_src t2 in
    match assoc_str (upper m) generate_column_save_mode_hash with
    | Some n => Ok (node "ASTGeneratedColumn" [("expression", e); ("save_mode", venum "EnumGenerateColumnSaveMode" n)], t3)
    | None => Err ParseErr
    end.

  Record colattrs := mkca { ca_comment : value; ca_unsigned : bool; ca_zerofill : bool; ca_charset : value; ca_collate : value;
                            ca_generated : value; ca_allow_null : bool; ca_not_null : bool; ca_auto_inc : bool;
                            ca_default : value; ca_on_update : value }.

  Fixpoint column_attrs (n : nat) (a : colattrs) (ts : toks) : res (colattrs * toks) :=
    match n with
    | O => Err OutOfFuel
    | Datatypes.S n' =>
        if is_finish ts || peek_str (S ";") ts then Ok (a, ts) else
        let '(b, t1) := take_up2 (S "NOT") (S "NULL") ts in
        if b then column_attrs n' (mkca (ca_comment a) (ca_unsigned a) (ca_zerofill a) (ca_charset a) (ca_collate a) (ca_generated a) (ca_allow_null a) true (ca_auto_inc a) (ca_default a) (ca_on_update a)) t1 else
        let '(b, t1) := take_up (S "NULL") ts in
        if b then column_attrs n' (mkca (ca_comment a) (ca_unsigned a) (ca_zerofill a) (ca_charset a) (ca_collate a) (ca_generated a) true (ca_not_null a) (ca_auto_inc a) (ca_default a) (ca_on_update a)) t1 else
        let '(b, t1) := take_up2 (S "CHARACTER") (S "SET") ts in
        if b then let* (s, t2) := pop_src t1 in column_attrs n' (mkca (ca_comment a) (ca_unsigned a) (ca_zerofill a) (VStr s) (ca_collate a) (ca_generated a) (ca_allow_null a) (ca_not_null a) (ca_auto_inc a) (ca_default a) (ca_on_update a)) t2 else
        let '(b, t1) := take_up (S "COLLATE") ts in
        if b then let* (s, t2) := pop_src t1 in column_attrs n' (mkca (ca_comment a) (ca_unsigned a) (ca_zerofill a) (ca_charset a) (VStr s) (ca_generated a) (ca_allow_null a) (ca_not_null a) (ca_auto_inc a) (ca_default a) (ca_on_update a)) t2 else
        let '(b, t1) := take_up (S "DEFAULT") ts in
        if b then let* (e, t2) := r F_compute t1 in column_attrs n' (mkca (ca_comment a) (ca_unsigned a) (ca_zerofill a) (ca_charset a) (ca_collate a) (ca_generated a) (ca_allow_null a) (ca_not_null a) (ca_auto_inc a) e (ca_on_update a)) t2 else
        let '(b, t1) := take_up (S "COMMENT") ts in
        if b then let* (s, t2) := pop_src t1 in column_attrs n' (mkca (VStr s) (ca_unsigned a) (ca_zerofill a) (ca_charset a) (ca_collate a) (ca_generated a) (ca_allow_null a) (ca_not_null a) (ca_auto_inc a) (ca_default a) (ca_on_update a)) t2 else
        let '(b, t1) := take_up2 (S "ON") (S "UPDATE") ts in
        if b then let* (e, t2) := r F_compute t1 in column_attrs n' (mkca (ca_comment a) (ca_unsigned a) (ca_zerofill a) (ca_charset a) (ca_collate a) (ca_generated a) (ca_allow_null a) (ca_not_null a) (ca_auto_inc a) (ca_default a) e) t2 else
        let '(b, t1) := take_up (S "AUTO_INCREMENT") ts in
        if b then column_attrs n' (mkca (ca_comment a) (ca_unsigned a) (ca_zerofill a) (ca_charset a) (ca_collate a) (ca_generated a) (ca_allow_null a) (ca_not_null a) true (ca_default a) (ca_on_update a)) t1 else
        let '(b, t1) := take_up (S "UNSIGNED") ts in
        if b then column_attrs n' (mkca (ca_comment a) true (ca_zerofill a) (ca_charset a) (ca_collate a) (ca_generated a) (ca_allow_null a) (ca_not_null a) (ca_auto_inc a) (ca_default a) (ca_on_update a)) t1 else
        let '(b, t1) := take_up (S "ZEROFILL") ts in
        if b then column_attrs n' (mkca (ca_comment a) (ca_unsigned a) true (ca_charset a) (ca_collate a) (ca_generated a) (ca_allow_null a) (ca_not_null a) (ca_auto_inc a) (ca_default a) (ca_on_update a)) t1 else
        if peek_up (S "GENERATED") ts then
          let* (g, t2) := b_generated ts in
          match g with VNone => Err ParseErr | _ =>
          column_attrs n' (mkca (ca_comment a) (ca_unsigned a) (ca_zerofill a) (ca_charset a) (ca_collate a) g (ca_allow_null a) (ca_not_null a) (ca_auto_inc a) (ca_default a) (ca_on_update a)) t2 end
        else Err ParseErr
    end.

  Definition b_define_column (ts : toks) : PR :=
    let* (cn, t1) := pop_src ts in
    let* (ct, t2) := r F_column_type t1 in
    let* (a, t3) := column_attrs (Datatypes.S (Datatypes.S (List.length t2))) (mkca VNone false false VNone VNone VNone false false false VNone VNone) t2 in
    Ok (node "ASTDefineColumnExpression"
          [("column_name", VStr (unify_name cn)); ("column_type", ct); ("comment", ca_comment a); ("is_unsigned", vbool (ca_unsigned a));
           ("is_zerofill", vbool (ca_zerofill a)); ("character_set", ca_charset a); ("collate", ca_collate a);
           ("generated_always_as", ca_generated a); ("is_allow_null", vbool (ca_allow_null a)); ("is_not_null", vbool (ca_not_null a));
           ("is_auto_increment", vbool (ca_auto_inc a)); ("default", ca_default a); ("on_update", ca_on_update a)], t3).

  Definition b_column_or_index (ts : toks) : PR :=
    if peek_up2 (S "PRIMARY") (S "KEY") ts then b_index "ASTPrimaryIndexExpression" ["PRIMARY"; "KEY"] false ts else
    if peek_up2 (S "UNIQUE") (S "KEY") ts then b_index "ASTUniqueIndexExpression" ["UNIQUE"; "KEY"] true ts else
    if peek_up (S "KEY") ts then b_index "ASTNormalIndexExpression" ["KEY"] true ts else
    if peek_up2 (S "FULLTEXT") (S "KEY") ts then b_index "ASTFulltextIndexExpression" ["FULLTEXT"; "KEY"] true ts else
    if peek_up (S "CONSTRAINT") ts then b_foreign_key ts else
    r F_define_column ts.

  (* ---------- statements ---------- *)
  Definition opt_partition (ts : toks) : PR :=
    if peek_up (S "PARTITION") ts then b_partition false ts else Ok (VNone, ts).

  Fixpoint values_loop (n : nat) (ts : toks) (acc : list value) : res (list value * toks) :=
    match n with
    | O => Err OutOfFuel
    | Datatypes.S n' =>
        if peek_mark M_PAREN ts then
          let* (v, t1) := r F_sub_value ts in
          let '(_, t2) := take_str (S ",") t1 in values_loop n' t2 (v :: acc)
        else Ok (rev acc, ts)
    end.

  Definition b_insert (w : option value) (ts : toks) : PR :=
    let* (wc, t0) := match w with Some x => Ok (x, ts) | None => b_with_clause ts end in
    let* (it, t1) := parse_insert_type t0 in
    let '(_, t2) := take_up (S "TABLE") t1 in
    let* (tn, t3) := parse_table_name t2 in
    let* (part, t4) := opt_partition t3 in
    let* (cols, t5) :=
      if peek_mark M_PAREN t4 then
        let* (segs, t') := pop_split (S ",") t4 in
        let* vs := each_closed parse_column_name segs in Ok (vtuple vs, t')
      else Ok (VNone, t4) in
    let '(b, t6) := take_up (S "VALUES") t5 in
    if b then
      let* (vals, t7) := values_loop (Datatypes.S (List.length t6)) t6 [] in
      Ok (node "ASTInsertValuesStatement" [("with_clause", wc); ("insert_type", it); ("table_name", tn); ("partition", part);
                                           ("columns", cols); ("values", vtuple vals)], t7)
    else if peek_up (S "SELECT") t5 then
      let* (q, t7) := r1 F_select empty_with t5 in
      Ok (node "ASTInsertSelectStatement" [("with_clause", wc); ("insert_type", it); ("table_name", tn); ("partition", part);
                                           ("columns", cols); ("select_statement", q)], t7)
    else Err ParseErr.

  Definition b_set (ts : toks) : PR :=
    let* t1 := match_pats (PS ["SET"]) ts in
    let* (c, t2) := parse_config_string_expression t1 in Ok (node "ASTSetStatement" [("config", c)], t2).

  Record tblopts := mkto { to_partitioned : list value; to_comment : value; to_engine : value; to_auto_inc : value; to_charset : value;
                           to_collate : value; to_row_format : value; to_stats : value; to_serde : value; to_delim : value;
                           to_inputformat : value; to_textfile : bool; to_outputformat : value; to_location : value;
                           to_tblprops : list value }.

  (* `scanner.search_and_move_one_type_str("="); x = scanner.pop_as_source()` *)
  Definition eq_value (ts : toks) : res (str * toks) := let '(_, t1) := take_str (S "=") ts in pop_src t1.

  Fixpoint table_options (n : nat) (o : tblopts) (ts : toks) : res (tblopts * toks) :=
    match n with
    | O => Err OutOfFuel
    | Datatypes.S n' =>
        if is_finish ts || peek_str (S ";") ts then Ok (o, ts) else
        let set_v (t1 : toks) (k : tblopts -> value -> tblopts) :=
          let* (s, t2) := eq_value t1 in table_options n' (k o (VStr s)) t2 in
        let '(b, t1) := take_up (S "ENGINE") ts in
        if b then set_v t1 (fun o v => mkto (to_partitioned o) (to_comment o) v (to_auto_inc o) (to_charset o) (to_collate o) (to_row_format o) (to_stats o) (to_serde o) (to_delim o) (to_inputformat o) (to_textfile o) (to_outputformat o) (to_location o) (to_tblprops o)) else
        let '(b, t1) := take_up (S "AUTO_INCREMENT") ts in
        if b then let* (s, t2) := eq_value t1 in let* z := int_of s in
                  table_options n' (mkto (to_partitioned o) (to_comment o) (to_engine o) (VInt z) (to_charset o) (to_collate o) (to_row_format o) (to_stats o) (to_serde o) (to_delim o) (to_inputformat o) (to_textfile o) (to_outputformat o) (to_location o) (to_tblprops o)) t2 else
        let '(b, t1) := take_up2 (S "DEFAULT") (S "CHARSET") ts in
        if b then set_v t1 (fun o v => mkto (to_partitioned o) (to_comment o) (to_engine o) (to_auto_inc o) v (to_collate o) (to_row_format o) (to_stats o) (to_serde o) (to_delim o) (to_inputformat o) (to_textfile o) (to_outputformat o) (to_location o) (to_tblprops o)) else
        let '(b, t1) := take_up (S "ROW_FORMAT") ts in
        if b then set_v t1 (fun o v => mkto (to_partitioned o) (to_comment o) (to_engine o) (to_auto_inc o) (to_charset o) (to_collate o) v (to_stats o) (to_serde o) (to_delim o) (to_inputformat o) (to_textfile o) (to_outputformat o) (to_location o) (to_tblprops o)) else
        let '(b, t1) := take_up (S "COLLATE") ts in
        if b then set_v t1 (fun o v => mkto (to_partitioned o) (to_comment o) (to_engine o) (to_auto_inc o) (to_charset o) v (to_row_format o) (to_stats o) (to_serde o) (to_delim o) (to_inputformat o) (to_textfile o) (to_outputformat o) (to_location o) (to_tblprops o)) else
        let '(b, t1) := take_up (S "COMMENT") ts in
        if b then set_v t1 (fun o v => mkto (to_partitioned o) v (to_engine o) (to_auto_inc o) (to_charset o) (to_collate o) (to_row_format o) (to_stats o) (to_serde o) (to_delim o) (to_inputformat o) (to_textfile o) (to_outputformat o) (to_location o) (to_tblprops o)) else
        let '(b, t1) := take_up (S "STATS_PERSISTENT") ts in
        if b then set_v t1 (fun o v => mkto (to_partitioned o) (to_comment o) (to_engine o) (to_auto_inc o) (to_charset o) (to_collate o) (to_row_format o) v (to_serde o) (to_delim o) (to_inputformat o) (to_textfile o) (to_outputformat o) (to_location o) (to_tblprops o)) else
        let '(b, t1) := take_up2 (S "PARTITIONED") (S "BY") ts in
        if b then
          let* (segs, t2) := pop_split (S ",") t1 in
          let* vs := each_closed (r F_define_column) segs in
          table_options n' (mkto (to_partitioned o ++ vs) (to_comment o) (to_engine o) (to_auto_inc o) (to_charset o) (to_collate o) (to_row_format o) (to_stats o) (to_serde o) (to_delim o) (to_inputformat o) (to_textfile o) (to_outputformat o) (to_location o) (to_tblprops o)) t2 else
        let '(b, t1) := take_up3 (S "ROW") (S "FORMAT") (S "SERDE") ts in
        if b then set_v t1 (fun o v => mkto (to_partitioned o) (to_comment o) (to_engine o) (to_auto_inc o) (to_charset o) (to_collate o) (to_row_format o) (to_stats o) v (to_delim o) (to_inputformat o) (to_textfile o) (to_outputformat o) (to_location o) (to_tblprops o)) else
        let '(b, t1) := take_pats (PS ["ROW"; "FORMAT"; "DELIMITED"; "FIELDS"; "TERMINATED"; "BY"]) ts in
        if b then set_v t1 (fun o v => mkto (to_partitioned o) (to_comment o) (to_engine o) (to_auto_inc o) (to_charset o) (to_collate o) (to_row_format o) (to_stats o) (to_serde o) v (to_inputformat o) (to_textfile o) (to_outputformat o) (to_location o) (to_tblprops o)) else
        let '(b, t1) := take_up3 (S "STORED") (S "AS") (S "INPUTFORMAT") ts in
        if b then set_v t1 (fun o v => mkto (to_partitioned o) (to_comment o) (to_engine o) (to_auto_inc o) (to_charset o) (to_collate o) (to_row_format o) (to_stats o) (to_serde o) (to_delim o) v (to_textfile o) (to_outputformat o) (to_location o) (to_tblprops o)) else
        let '(b, t1) := take_up3 (S "STORED") (S "AS") (S "TEXTFILE") ts in
        if b then table_options n' (mkto (to_partitioned o) (to_comment o) (to_engine o) (to_auto_inc o) (to_charset o) (to_collate o) (to_row_format o) (to_stats o) (to_serde o) (to_delim o) (to_inputformat o) true (to_outputformat o) (to_location o) (to_tblprops o)) t1 else
        let '(b, t1) := take_up (S "OUTPUTFORMAT") ts in
        if b then set_v t1 (fun o v => mkto (to_partitioned o) (to_comment o) (to_engine o) (to_auto_inc o) (to_charset o) (to_collate o) (to_row_format o) (to_stats o) (to_serde o) (to_delim o) (to_inputformat o) (to_textfile o) v (to_location o) (to_tblprops o)) else
        let '(b, t1) := take_up (S "LOCATION") ts in
        if b then set_v t1 (fun o v => mkto (to_partitioned o) (to_comment o) (to_engine o) (to_auto_inc o) (to_charset o) (to_collate o) (to_row_format o) (to_stats o) (to_serde o) (to_delim o) (to_inputformat o) (to_textfile o) (to_outputformat o) v (to_tblprops o)) else
        let '(b, t1) := take_up (S "TBLPROPERTIES") ts in
        if b then
          let* (segs, t2) := pop_split (S ",") t1 in
          let* vs := each_closed parse_config_string_expression segs in
          table_options n' (mkto (to_partitioned o) (to_comment o) (to_engine o) (to_auto_inc o) (to_charset o) (to_collate o) (to_row_format o) (to_stats o) (to_serde o) (to_delim o) (to_inputformat o) (to_textfile o) (to_outputformat o) (to_location o) (to_tblprops o ++ vs)) t2
        else Err ParseErr
    end.

  Record tbldefs := mktd { td_columns : list value; td_primary : value; td_unique : list value; td_key : list value;
                           td_fulltext : list value; td_foreign : list value }.

  Fixpoint table_defs (segs : list toks) (a : tbldefs) : res tbldefs :=
    match segs with
    | [] => Ok a
    | sg :: segs' =>
        let* (a', sg') :=
          if peek_up2 (S "PRIMARY") (S "KEY") sg then
            let* (v, x) := b_index "ASTPrimaryIndexExpression" ["PRIMARY"; "KEY"] false sg in
            Ok (mktd (td_columns a) v (td_unique a) (td_key a) (td_fulltext a) (td_foreign a), x)
          else if peek_up2 (S "UNIQUE") (S "KEY") sg then
            let* (v, x) := b_index "ASTUniqueIndexExpression" ["UNIQUE"; "KEY"] true sg in
            Ok (mktd (td_columns a) (td_primary a) (td_unique a ++ [v]) (td_key a) (td_fulltext a) (td_foreign a), x)
          else if peek_up (S "KEY") sg then
            let* (v, x) := b_index "ASTNormalIndexExpression" ["KEY"] true sg in
            Ok (mktd (td_columns a) (td_primary a) (td_unique a) (td_key a ++ [v]) (td_fulltext a) (td_foreign a), x)
          else if peek_up2 (S "FULLTEXT") (S "KEY") sg then
            let* (v, x) := b_index "ASTFulltextIndexExpression" ["FULLTEXT"; "KEY"] true sg in
            Ok (mktd (td_columns a) (td_primary a) (td_unique a) (td_key a) (td_fulltext a ++ [v]) (td_foreign a), x)
          else if peek_up (S "CONSTRAINT") sg then
            let* (v, x) := b_foreign_key sg in
            Ok (mktd (td_columns a) (td_primary a) (td_unique a) (td_key a) (td_fulltext a) (td_foreign a ++ [v]), x)
          else
            let* (v, x) := r F_define_column sg in
            Ok (mktd (td_columns a ++ [v]) (td_primary a) (td_unique a) (td_key a) (td_fulltext a) (td_foreign a), x) in
        let* _ := close sg' in table_defs segs' a'
    end.

  Definition b_create_table (ts : toks) : PR :=
    let* t1 := match_pats (PS ["CREATE"; "TABLE"]) ts in
    let '(ine, t2) := take_up3 (S "IF") (S "NOT") (S "EXISTS") t1 in
    let* (tn, t3) := parse_table_name t2 in
    let '(b, t4) := take_up (S "AS") t3 in
    if b then
      let* (q, t5) := r F_select t4 in
      Ok (node "ASTCreateTableAsStatement" [("table_name", tn); ("select_statement", q)], t5)
    else
      let* (segs, t5) := pop_split (S ",") t3 in
      let* td := table_defs segs (mktd [] VNone [] [] [] []) in
      let* (o, t6) := table_options (Datatypes.S (List.length t5))
                        (mkto [] VNone VNone VNone VNone VNone VNone VNone VNone VNone VNone false VNone VNone []) t5 in
      let '(_, t7) := take_str (S ";") t6 in
      Ok (node "ASTCreateTableStatement"
            [("table_name", tn); ("comment", to_comment o); ("if_not_exists", vbool ine); ("columns", vtuple (td_columns td));
             ("primary_key", td_primary td); ("unique_key", vtuple (td_unique td)); ("key", vtuple (td_key td));
             ("fulltext_key", vtuple (td_fulltext td)); ("foreign_key", vtuple (td_foreign td)); ("engine", to_engine o);
             ("auto_increment", to_auto_inc o); ("default_charset", to_charset o); ("collate", to_collate o);
             ("row_format", to_row_format o); ("states_persistent", to_stats o); ("partitioned_by", vtuple (to_partitioned o));
             ("row_format_serde", to_serde o); ("row_format_delimited_fields_terminated_by", to_delim o);
             ("stored_as_inputformat", to_inputformat o); ("stored_as_textfile", vbool (to_textfile o));
             ("outputformat", to_outputformat o); ("location", to_location o); ("tblproperties", vtuple (to_tblprops o))], t7).

  Definition b_drop_table (ts : toks) : PR :=
    let* t1 := match_pats (PS ["DROP"; "TABLE"]) ts in
    let '(ie, t2) := take_up2 (S "IF") (S "EXISTS") t1 in
    let* (tn, t3) := parse_table_name t2 in
    Ok (node "ASTDropTableStatement" [("if_exists", vbool ie); ("table_name", tn)], t3).

  Definition b_analyze (ts : toks) : PR :=
    let* t1 := match_pats (PS ["ANALYZE"; "TABLE"]) ts in
    let* (tn, t2) := parse_table_name t1 in
    let* (part, t3) := opt_partition t2 in
    let '(_, t4) := take_up2 (S "COMPUTE") (S "STATISTICS") t3 in
    let '(fc, t5) := take_up2 (S "FOR") (S "COLUMNS") t4 in
    let '(cm, t6) := take_up2 (S "CACHE") (S "METADATA") t5 in
    let '(ns, t7) := take_up (S "NOSCAN") t6 in
    Ok (node "ASTAnalyzeTableStatement" [("table_name", tn); ("partition", part); ("for_columns", vbool fc);
                                         ("cache_metadata", vbool cm); ("noscan", vbool ns)], t7).

  Definition b_alter_expression (ts : toks) : PR :=
    let '(b, t1) := take_up2 (S "ADD") (S "PARTITION") ts in
    if b then let* (p, t2) := b_partition true t1 in
              Ok (node "ASTAlterAddPartitionExpression" [("if_not_exists", vbool false); ("partition", p)], t2) else
    let '(b, t1) := take_pats (PS ["ADD"; "IF"; "NOT"; "EXISTS"; "PARTITION"]) ts in
    if b then let* (p, t2) := b_partition true t1 in
              Ok (node "ASTAlterAddPartitionExpression" [("if_not_exists", vbool true); ("partition", p)], t2) else
    let '(b, t1) := take_up (S "ADD") ts in
    if b then let* (e, t2) := r F_column_or_index t1 in Ok (node "ASTAlterAddExpression" [("expression", e)], t2) else
    let '(b, t1) := take_up (S "MODIFY") ts in
    if b then let* (e, t2) := r F_column_or_index t1 in Ok (node "ASTAlterModifyExpression" [("expression", e)], t2) else
    let '(b, t1) := take_up (S "CHANGE") ts in
    if b then let* (f, t2) := pop_src t1 in let* (e, t3) := r F_column_or_index t2 in
              Ok (node "ASTAlterChangeExpression" [("from_column_name", VStr (unify_name f)); ("to_expression", e)], t3) else
    let '(b, t1) := take_up2 (S "RENAME") (S "COLUMN") ts in
    if b then let* (f, t2) := pop_src t1 in let* t3 := match_pats (PS ["TO"]) t2 in let* (g, t4) := pop_src t3 in
              Ok (node "ASTAlterRenameColumnExpression" [("from_column_name", VStr (unify_name f)); ("to_column_name", VStr (unify_name g))], t4) else
    let '(b, t1) := take_up2 (S "DROP") (S "COLUMN") ts in
    if b then let* (c, t2) := pop_src t1 in Ok (node "ASTAlterDropColumnExpression" [("column_name", VStr (unify_name c))], t2) else
    let '(b, t1) := take_up2 (S "DROP") (S "PARTITION") ts in
    if b then let* (p, t2) := b_partition true t1 in
              Ok (node "ASTAlterDropPartitionExpression" [("if_exists", vbool false); ("partition", p)], t2) else
    let '(b, t1) := take_pats (PS ["DROP"; "IF"; "EXISTS"; "PARTITION"]) ts in
    if b then let* (p, t2) := b_partition true t1 in
              Ok (node "ASTAlterDropPartitionExpression" [("if_exists", vbool true); ("partition", p)], t2) else
    Err ParseErr.

  Definition b_alter_table (ts : toks) : PR :=
    let* t1 := match_pats (PS ["ALTER"; "TABLE"]) ts in
    let* (tn, t2) := parse_table_name t1 in
    let* (es, t3) := sep_list (r F_alter_expression) (S ",") t2 in
    Ok (node "ASTAlterTableStatement" [("table_name", tn); ("expressions", vtuple es)], t3).

  Definition table_stmt (cls : string) (kws : list string) (ts : toks) : PR :=
    let* t1 := match_pats (PS kws) ts in
    let* (tn, t2) := parse_table_name t1 in Ok (node cls [("table_name", tn)], t2).

  Definition b_use (ts : toks) : PR :=
    let* t1 := match_pats (PS ["USE"]) ts in
    let* (s, t2) := pop_src t1 in Ok (node "ASTUseStatement" [("schema_name", VStr s)], t2).

  Definition update_set_column (ts : toks) : PR :=
    let* (c, t1) := pop_src ts in
    let* t2 := match_pats [PStr (S "=")] t1 in
    let* (v, t3) := r F_logical_or t2 in
    Ok (node "ASTUpdateSetColumn" [("column_name", VStr (unify_name c)); ("column_value", v)], t3).

  Definition b_update (w : option value) (ts : toks) : PR :=
    let* t1 := match_pats (PS ["UPDATE"]) ts in
    let* (tn, t2) := parse_table_name t1 in
    let* t3 := match_pats (PS ["SET"]) t2 in
    let* (cols, t4) := sep_list update_set_column (S ",") t3 in
    let* (wh, t5) := b_where t4 in
    let* (ob, t6) := b_order_by t5 in
    let* (lm, t7) := parse_limit t6 in
    Ok (node "ASTUpdateStatement" [("with_clause", match w with Some x => x | None => VNone end); ("table_name", tn);
                                   ("set_clause", node "ASTUpdateSetClause" [("columns", vtuple cols)]);
                                   ("where_clause", wh); ("order_by_clause", ob); ("limit_clause", lm)], t7).

  Definition b_delete (ts : toks) : PR :=
    let* t1 := match_pats (PS ["DELETE"; "FROM"]) ts in
    let* (tn, t2) := parse_table_name t1 in
    let* (wh, t3) := b_where t2 in
    let* (ob, t4) := b_order_by t3 in
    let* (lm, t5) := parse_limit t4 in
    Ok (node "ASTDeleteStatement" [("table_name", tn); ("where_clause", wh); ("order_by_clause", ob); ("limit_clause", lm)], t5).

  Definition b_show_columns (ts : toks) : PR :=
    let* t1 := match_pats (PS ["SHOW"; "COLUMNS"]) ts in
    let* (f, t2) := b_from_clause t1 in
    let* (wh, t3) := b_where t2 in
    Ok (node "ASTShowColumnsStatement" [("from_clause", f); ("where_clause", wh)], t3).

  (* one iteration of the parse_statements loop, without the trailing optional ';' *)
  Definition b_statement (ts : toks) : PR :=
    if peek_up (S "SET") ts then b_set ts else
    if peek_up2 (S "DELETE") (S "FROM") ts then b_delete ts else
    if peek_up2 (S "DROP") (S "TABLE") ts then b_drop_table ts else
    if peek_up2 (S "CREATE") (S "TABLE") ts then r F_create_table ts else
    if peek_up2 (S "ANALYZE") (S "TABLE") ts then b_analyze ts else
    if peek_up2 (S "ALTER") (S "TABLE") ts then b_alter_table ts else
    if peek_up3 (S "MSCK") (S "REPAIR") (S "TABLE") ts then table_stmt "ASTMsckRepairTableStatement" ["MSCK"; "REPAIR"; "TABLE"] ts else
    if peek_up (S "USE") ts then b_use ts else
    if peek_up2 (S "TRUNCATE") (S "TABLE") ts then table_stmt "ASTTruncateTable" ["TRUNCATE"; "TABLE"] ts else
    let '(b, t1) := take_up2 (S "SHOW") (S "DATABASES") ts in
    if b then Ok (node "ASTShowDatabasesStatement" [], t1) else
    let '(b, t1) := take_up2 (S "SHOW") (S "TABLES") ts in
    if b then Ok (node "ASTShowTablesStatement" [], t1) else
    if peek_up2 (S "SHOW") (S "COLUMNS") ts then b_show_columns ts else
    let* (wc, t1) := b_with_clause ts in
    if peek_up (S "SELECT") t1 then r1 F_select wc t1 else
    if peek_up (S "INSERT") t1 then r1 F_insert wc t1 else
    if peek_up (S "UPDATE") t1 then b_update (Some wc) t1 else
    Err ParseErr.

  Definition body (f : fn) (a : option value) (ts : toks) : PR :=
    match f with
    | F_function => b_function ts
    | F_function_and_index => b_function_and_index ts
    | F_in_parenthesis => b_in_parenthesis ts
    | F_window => b_window ts
    | F_case => b_case ts
    | F_sub_query => b_sub_query ts
    | F_sub_value => b_sub_value ts
    | F_general_parenthesis => b_general_parenthesis ts
    | F_array_index => match a with Some b => b_array_index b ts | None => Err ParseErr end
    | F_element => b_element ts
    | F_unary => b_unary ts
    | F_compute => b_compute ts
    | F_keyword_condition => b_keyword_condition a ts
    | F_operator_condition => b_operator_condition ts
    | F_logical_not => b_logical_not ts
    | F_logical_and => b_logical_and ts
    | F_logical_xor => b_logical_xor ts
    | F_logical_or => b_logical_or ts
    | F_order_by_column => b_order_by_column ts
    | F_table_expression => b_table_expression ts
    | F_from_table => b_from_table ts
    | F_with_table => b_with_table ts
    | F_with_clause => b_with_clause ts
    | F_single_select => b_single_select a ts
    | F_select => b_select a ts
    | F_partition => b_partition (match a with Some (VBool true) => true | _ => false end) ts
    | F_column_type => b_column_type ts
    | F_define_column => b_define_column ts
    | F_insert => b_insert a ts
    | F_create_table => b_create_table ts
    | F_column_or_index => b_column_or_index ts
    | F_alter_expression => b_alter_expression ts
    | F_statement => b_statement ts
    end.
End Body.

Fixpoint run (fuel : nat) (f : fn) (d : sqltype) (a : option value) (ts : toks) : PR :=
  match fuel with
  | O => Err OutOfFuel
  | Datatypes.S n => body (run n) d f a ts
  end.

(* parse_statements: the statement loop with one optional ';' per iteration, then close() *)
Fixpoint statements_loop (n : nat) (fuel : nat) (d : sqltype) (ts : toks) (acc : list value) : res (list value) :=
  match n with
  | O => Err OutOfFuel
  | Datatypes.S n' =>
      if is_finish ts then Ok (rev acc) else
      let* (v, t1) := run fuel F_statement d None ts in
      let '(_, t2) := take_str (S ";") t1 in
      statements_loop n' fuel d t2 (v :: acc)
  end.

(* fuel that suffices for every token tree of this size (see Parse/Fuel.v) *)
Fixpoint tok_size (t : tok) : nat :=
  match t with Leaf _ _ => 1%nat | Group _ ts => Datatypes.S (fold_right (fun x m => (tok_size x + m)%nat) O ts) end.
Definition toks_size (ts : toks) : nat := fold_right (fun x m => (tok_size x + m)%nat) O ts.
Definition fuel_for (ts : toks) : nat := (40 * toks_size ts + 60)%nat.

(* _unify_input_scanner: the dialect pre-pass on the raw text *)
Definition dialect_prepass (d : sqltype) (s : str) : str :=
  match d with
  | D_DB2 => replace (S "CURRENT TIMESTAMP") (S "CURRENT_TIMESTAMP")
               (replace (S "CURRENT TIME") (S "CURRENT_TIME") (replace (S "CURRENT DATE") (S "CURRENT_DATE") s))
  | D_HIVE => replace (S "==") (S "=") s
  | _ => s
  end.
