(* Instances of the hypothesis of the script theorem (LoopProofs.item_ok): concrete statements of several kinds stop in
   front of a separator / at the end of the tokens whatever follows the separator.  `rest` is arbitrary. *)
From Coq Require Import List NArith ZArith Bool String Ascii Lia.
Require Import Base.Common Gen.LexTable Lex.Model Cur.Model Tree.Value Gen.Static Parse.Prim Parse.Model Parse.LoopProofs.
Import ListNotations.
Open Scope string_scope.
Open Scope N_scope.
Open Scope list_scope.

Definition W (s : string) : tok := Leaf (S s) 0.          (* keyword / punctuation *)
Definition Nm (s : string) : tok := Leaf (S s) MARK_NAME.  (* name *)
Definition Li (s : string) : tok := Leaf (S s) (N.lor MARK_LITERAL MARK_LITERAL_INT). (* integer literal *)

Ltac stops_cases :=
  let r := fresh "r" in
  intros ? [->|[r ->]];
  [ vm_compute; reflexivity
  | destruct r as [|? [|? [|? [|? r]]]]; vm_compute; reflexivity ].

Definition use_block := [W "USE"; Nm "db1"].
Definition drop_block := [W "DROP"; W "TABLE"; W "IF"; W "EXISTS"; Nm "db"; W "."; Nm "t"].
Definition select_block := [W "SELECT"; Nm "a"; W ","; Nm "b"; W "FROM"; Nm "t"; W "WHERE"; Nm "a"; W "="; Li "1"].
Definition delete_block := [W "DELETE"; W "FROM"; Nm "t"; W "WHERE"; Nm "a"; W ">"; Li "2"].
Definition set_block := [W "SET"; Nm "a"; W "="; Li "1"].

Definition val_of (fuel : nat) (d : sqltype) (b : toks) : value :=
  match run fuel F_statement d None b with Ok (v, _) => v | Err _ => VNone end.

Lemma use_item d : item_ok 30 d (mksi (val_of 30 d use_block) use_block).
Proof. split; [discriminate|]. destruct d; cbn [si_block si_val]; stops_cases. Qed.
Lemma drop_item d : item_ok 30 d (mksi (val_of 30 d drop_block) drop_block).
Proof. split; [discriminate|]. destruct d; cbn [si_block si_val]; stops_cases. Qed.
Lemma select_item d : item_ok 30 d (mksi (val_of 30 d select_block) select_block).
Proof. split; [discriminate|]. destruct d; cbn [si_block si_val]; stops_cases. Qed.
Lemma delete_item d : item_ok 30 d (mksi (val_of 30 d delete_block) delete_block).
Proof. split; [discriminate|]. destruct d; cbn [si_block si_val]; stops_cases. Qed.
Lemma set_item d : item_ok 30 d (mksi (val_of 30 d set_block) set_block).
Proof. split; [discriminate|]. destruct d; cbn [si_block si_val]; stops_cases. Qed.

(* the values are real trees, not the VNone default *)
Lemma blocks_parse : forallb (fun b => match run 30 F_statement D_DEFAULT None b with Ok (VNode _ _, []) => true | _ => false end)
                       [use_block; drop_block; select_block; delete_block; set_block] = true.
Proof. vm_compute. reflexivity. Qed.
