From Coq Require Import List NArith ZArith Bool String Ascii Lia.
Require Import Base.Common Gen.LexTable Lex.Model Cur.Model Tree.Value Tree.Canon Tree.Eq Gen.Static Parse.Prim Parse.Model Parse.Entry.
Import ListNotations.
Open Scope string_scope.
Open Scope list_scope.

Lemma clause_word_not_alias w m rest :
  mem_str (upper w) [S "CROSS"; S "USING"; S "SORT"; S "DISTRIBUTE"; S "CLUSTER"] = true -> str_eqb (upper w) (S "AS") = false ->
  parse_alias (Leaf w m :: rest) = Ok (VNone, Leaf w m :: rest).
Proof.
  intros Hk Has. unfold parse_alias, take_up, take, peek_up, source_equal_upper. cbn [Lex.Model.source]. rewrite Has.
  unfold peek_set_up. cbn [Lex.Model.source]. rewrite Hk. rewrite andb_false_r. reflexivity.
Qed.

(* SELECT DISTINCT t.a AS x, count(b) FROM db.t x1 LEFT OUTER JOIN u ON t.k = u.k WHERE c > 1 GROUP BY t.a WITH ROLLUP HAVING count(b) > 2
   ORDER BY x DESC NULLS LAST LIMIT 5, 10 *)
Definition q_text : string :=
  "SELECT DISTINCT t.a AS x, count(b) FROM db.t x1 LEFT OUTER JOIN u ON t.k = u.k WHERE c > 1 GROUP BY t.a WITH ROLLUP HAVING count(b) > 2 ORDER BY x DESC NULLS LAST LIMIT 5, 10".
Definition pathv (fs : list string) (v : value) : value := fold_left (fun x f => get f x) fs v.
Definition nth_t (i : nat) (v : value) : value := match v with VTuple l => nth i l VNone | _ => VNone end.
Definition c03_example_ok : bool :=
  match parse_text false "statements" D_MYSQL (S q_text) with
  | Ok (VList [q]) =>
      veqb (pathv ["select_clause"; "distinct"] q) (VBool true)
      && veqb (get "name" (get "alias" (nth_t 0 (pathv ["select_clause"; "columns"] q)))) (VStr (S "x"))
      && veqb (get "alias" (nth_t 1 (pathv ["select_clause"; "columns"] q))) VNone
      && veqb (get "name" (nth_t 0 (pathv ["from_clause"; "tables"] q)))
              (VNode "ASTTableNameExpression" [("schema_name", VStr (S "db")); ("table_name", VStr (S "t"))])
      && veqb (get "name" (get "alias" (nth_t 0 (pathv ["from_clause"; "tables"] q)))) (VStr (S "x1"))
      && veqb (pathv ["type"; "enum"] (nth_t 0 (get "join_clauses" q))) (VEnum "EnumJoinType" "LEFT_OUTER_JOIN")
      && String.eqb (cls_of (get "rule" (nth_t 0 (get "join_clauses" q)))) "ASTJoinOnExpression"
      && String.eqb (cls_of (pathv ["where_clause"; "condition"] q)) "ASTOperatorConditionExpression"
      && veqb (pathv ["group_by_clause"; "with_rollup"] q) (VBool true) && veqb (pathv ["group_by_clause"; "with_cube"] q) (VBool false)
      && String.eqb (cls_of (get "having_clause" q)) "ASTHavingClause"
      && veqb (pathv ["order"; "enum"] (nth_t 0 (pathv ["order_by_clause"; "columns"] q))) (VEnum "EnumOrderType" "DESC")
      && veqb (get "nulls_last" (nth_t 0 (pathv ["order_by_clause"; "columns"] q))) (VBool true)
      && veqb (get "limit_clause" q) (VNode "ASTLimitClause" [("limit", VInt 10); ("offset", VInt 5)])
  | _ => false
  end.
