(* A bracket group that is split at a separator and parsed segment by segment (Parse.Prim.pop_split + each_closed: value lists,
   column lists, type parameters, partition lists, index columns ...) accounts for every token of the group: the accepted
   segments, in order, are exactly the group's children minus the separators, each segment was consumed to its end by the item
   parser, and one value is produced per segment -- for ANY item parser. *)
From Coq Require Import List NArith Bool Arith Lia.
Require Import Base.Common Gen.LexTable Lex.Model Cur.Model Cur.Split Tree.Value Parse.Prim Parse.C08Facts.
Import ListNotations.
Local Open Scope nat_scope.

Lemma Forall2_length_eq {A B} (R : A -> B -> Prop) l1 l2 : Forall2 R l1 l2 -> List.length l1 = List.length l2.
Proof. induction 1; cbn [List.length]; congruence. Qed.

Theorem split_group_accounted (item : toks -> PR) s ts segs r vs :
  pop_split s ts = Ok (segs, r) -> each_closed item segs = Ok vs ->
  exists g, ts = g :: r /\ is_group g = true
    /\ concat segs = filter (not_sep s) (tok_children g)
    /\ Forall (fun sg => sg <> [] /\ Forall (fun t => is_sep s t = false) sg) segs
    /\ Forall2 (fun sg v => item sg = Ok (v, [])) segs vs
    /\ List.length vs = List.length segs
    /\ List.length segs <= List.length (filter (is_sep s) (tok_children g)) + 1.
Proof.
  intros Hp He. unfold pop_split in Hp. destruct ts as [|g r']; [discriminate Hp|].
  destruct (is_group g) eqn:Eg; [|discriminate Hp]. inversion Hp; subst segs r; clear Hp.
  exists g. split; [reflexivity|]. split; [exact Eg|].
  split; [apply split_conserves|]. split; [apply split_segments_clean|].
  pose proof (each_closed_consumes item _ _ He) as F2.
  split; [exact F2|]. split; [symmetry; exact (Forall2_length_eq _ _ _ F2)|apply split_by_count].
Qed.

(* the failing side: a segment with a leftover token makes the whole group fail (nothing is accepted around it) *)
Theorem split_group_leftover_rejected (item : toks -> PR) segs1 sg segs2 v t rest :
  Forall (fun x => exists w, item x = Ok (w, [])) segs1 -> item sg = Ok (v, t :: rest) ->
  each_closed item (segs1 ++ sg :: segs2) = Err ParseErr.
Proof.
  induction segs1 as [|x segs1 IH]; intros H1 H2; cbn [app each_closed].
  - rewrite H2. reflexivity.
  - inversion H1 as [|y l [w Hw] Hl]; subst. rewrite Hw. cbn. rewrite IH; [reflexivity|exact Hl|exact H2].
Qed.
