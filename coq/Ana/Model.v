(* Hand-written executable model of the analysers of metasequoia_sql/analyzer (base.py: the generic reflective fold over
   dataclasses.fields; toolkit/all_level_standard_table.py, current_level_used_quote_columns.py, current_level_column_analyzer.py)
   over generic trees in canonical form (fields in dataclasses.fields() order -- Tree/Canon.v, regenerated schema). *)
From Coq Require Import List NArith ZArith Bool String Ascii.
Require Import Base.Common Gen.LexTable Lex.Model Cur.Model Tree.Value Tree.Canon Gen.Schema Gen.Static Parse.Prim Parse.Model Print.Model.
Import ListNotations.
Open Scope string_scope.
Open Scope list_scope.

(* ---------- the generic fold (AnalyzerRecursionASTToListBase.default_handle_node) with a handler override ---------- *)
Section Fold.
  Context {R : Type}.
  Variable handler : value -> option (res (list R)).     (* Some = the analyser's own rule for this node *)

  Fixpoint fold_value (fuel : nat) (v : value) : res (list R) :=
    match fuel with
    | O => Err OutOfFuel
    | Datatypes.S n =>
        match handler v with
        | Some r => r
        | None =>
            match v with
            | VNode _ fs =>
                (fix go (l : list (string * value)) : res (list R) :=
                   match l with
                   | [] => Ok []
                   | (_, x) :: l' => match fold_value n x with Ok a => match go l' with Ok b => Ok (a ++ b) | Err e => Err e end | Err e => Err e end
                   end) fs
            | VTuple l | VList l =>
                (fix go (l : list value) : res (list R) :=
                   match l with
                   | [] => Ok []
                   | x :: l' => match fold_value n x with Ok a => match go l' with Ok b => Ok (a ++ b) | Err e => Err e end | Err e => Err e end
                   end) l
            | _ => Ok []
            end
        end
    end.
End Fold.

(* ---------- C14: tables ---------- *)
Definition stable := (option str * str)%type.                       (* StandardTable(schema_name, table_name) *)
Definition opt_of (v : value) : option str := match v with VStr s => Some s | _ => None end.
Definition str_of (v : value) : str := match v with VStr s => s | _ => [] end.

Definition tables_handler (v : value) : option (res (list stable)) :=
  match v with
  | VNode c _ => if String.eqb c "ASTTableNameExpression" then Some (Ok [(opt_of (get "schema_name" v), str_of (get "table_name" v))]) else None
  | _ => None
  end.
Definition all_tables (v : value) : res (list stable) := fold_value tables_handler (Datatypes.S (vdepth v)) v.

(* AnalyzerSelectASTToListBase.handle: a single SELECT, or the single SELECTs among the elements of a compound one *)
Definition per_branch {R} (f : value -> res (list R)) (q : value) : res (list R) :=
  let c := cls_of q in
  if String.eqb c "ASTSingleSelectStatement" then f q
  else if String.eqb c "ASTUnionSelectStatement" then
    (fix go (l : list value) : res (list R) :=
       match l with
       | [] => Ok []
       | x :: l' => if String.eqb (cls_of x) "ASTSingleSelectStatement"
                    then match f x with Ok a => match go l' with Ok b => Ok (a ++ b) | Err e => Err e end | Err e => Err e end
                    else go l'
       end) (ftuple "elements" q)
  else Err (Crash 4).                                                (* check_param_type raises KeyError *)
Definition from_tables (q : value) : res (list stable) := per_branch (fun s => all_tables (get "from_clause" s)) q.
Definition join_tables (q : value) : res (list stable) := per_branch (fun s => all_tables (get "join_clauses" s)) q.

(* ---------- C15: quoted columns ---------- *)
Record qcol := mkq { q_table : option str; q_column : option str; q_idx : option Z }.

Definition src_default (v : value) : res str := print_fuel (2 * vdepth v + 4) D_DEFAULT v.   (* node.source() *)
Definition as_ordinal (v : value) : res (option Z) :=
  match src_default v with Ok s => Ok (py_int s) | Err e => Err e end.                          (* is_int_literal + int() *)

Section Cols.
  Variable rec : value -> res (list qcol).      (* CurrentNodeUsedQuoteColumn.handle, one level down *)
  Fixpoint cat_map (f : value -> res (list qcol)) (l : list value) : res (list qcol) :=
    match l with
    | [] => Ok []
    | x :: l' => match f x with Ok a => match cat_map f l' with Ok b => Ok (a ++ b) | Err e => Err e end | Err e => Err e end
    end.
  Definition default_fields (v : value) : res (list qcol) :=
    match v with
    | VNode _ fs => cat_map rec (map snd fs)
    | VTuple l | VList l => cat_map rec l
    | _ => Ok []
    end.
  Definition cols_node (v : value) : res (list qcol) :=
    match v with
    | VNode c _ =>
        if String.eqb c "ASTAggregationFunction" then
          match default_fields v with
          | Ok [] => Ok [mkq None None None]
          | r => r
          end
        else if String.eqb c "ASTWildcardExpression" then Ok [mkq (opt_of (get "table_name" v)) (Some (S "*")) None]
        else if String.eqb c "ASTColumnNameExpression" then
          match src_default v with
          | Ok s => if mem_str s global_variable_name_set then default_fields v
                    else Ok [mkq (opt_of (get "table_name" v)) (opt_of (get "column_name" v)) None]
          | Err e => Err e
          end
        else if String.eqb c "ASTGroupByClause" then
          match cat_map (fun col => match as_ordinal col with
                                    | Ok (Some z) => Ok [mkq None None (Some z)]
                                    | Ok None => rec col
                                    | Err e => Err e end) (ftuple "columns" v) with
          | Ok a => match rec (get "grouping_sets" v) with Ok b => Ok (a ++ b) | Err e => Err e end
          | Err e => Err e
          end
        else if String.eqb c "ASTOrderByClause" then
          cat_map (fun col => match as_ordinal (get "column" col) with
                              | Ok (Some z) => Ok [mkq None None (Some z)]
                              | Ok None => rec col
                              | Err e => Err e end) (ftuple "columns" v)
        else if String.eqb c "ASTSubQueryExpression" || String.eqb c "ASTWithClause" then Ok []
        else default_fields v
    | _ => default_fields v
    end.
End Cols.

Fixpoint node_cols (fuel : nat) (v : value) : res (list qcol) :=
  match fuel with O => Err OutOfFuel | Datatypes.S n => cols_node (node_cols n) v end.
Definition used_cols (v : value) : res (list qcol) := node_cols (Datatypes.S (Datatypes.S (vdepth v))) v.

Definition qcol_eqb (a b : qcol) : bool :=
  let oe (x y : option str) := match x, y with Some s, Some t => str_eqb s t | None, None => true | _, _ => false end in
  oe (q_table a) (q_table b) && oe (q_column a) (q_column b) &&
  match q_idx a, q_idx b with Some x, Some y => Z.eqb x y | None, None => true | _, _ => false end.

(* dict built by a loop: a later entry with an equal key replaces the value of the earlier one (the key keeps its first
   position; only lookups are observable here) *)
Fixpoint dict_get {B} (k : qcol) (l : list (qcol * B)) : option B :=
  match l with
  | [] => None
  | (k', v) :: l' => match dict_get k l' with Some x => Some x | None => if qcol_eqb k k' then Some v else None end
  end.

Fixpoint select_hashes (i : Z) (cols : list value) : res (list (qcol * list qcol) * list (qcol * list qcol)) :=
  match cols with
  | [] => Ok ([], [])
  | c :: cols' =>
      match used_cols (get "value" c), select_hashes (i + 1) cols' with
      | Ok u, Ok (al, ix) =>
          let al' := match get "alias" c with
                     | VNone => al
                     | a => (mkq None (opt_of (get "name" a)) None, u) :: al
                     end in
          Ok (al', (mkq None None (Some i), u) :: ix)
      | Err e, _ => Err e
      | _, Err e => Err e
      end
  end.

(* CurrentQuoteColumnAnalyzerBase._format_quote_columns *)
Definition format_cols (cols : list qcol) (single : value) : res (list qcol) :=
  match select_hashes 1 (ftuple "columns" (get "select_clause" single)) with
  | Err e => Err e
  | Ok (al, ix) =>
      Ok (flat_map (fun c => match dict_get c al with
                             | Some l => l
                             | None => match dict_get c ix with Some l => l | None => [c] end
                             end) cols)
  end.

Definition clause_cols (part : value -> value) (q : value) : res (list qcol) :=
  per_branch (fun s => match used_cols (part s) with Ok l => format_cols l s | Err e => Err e end) q.

Definition analyse_cols (which : string) (q : value) : res (list qcol) :=
  if String.eqb which "all" then clause_cols (fun s => s) q
  else if String.eqb which "select" then clause_cols (get "select_clause") q
  else if String.eqb which "join" then clause_cols (get "join_clauses") q
  else if String.eqb which "where" then clause_cols (get "where_clause") q
  else if String.eqb which "group_by" then clause_cols (get "group_by_clause") q
  else if String.eqb which "having" then clause_cols (get "having_clause") q
  else if String.eqb which "order_by" then clause_cols (get "order_by_clause") q
  else Err (Crash 7).
