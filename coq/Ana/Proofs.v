(* Theorems about the analyser models: the table walk is exactly the pre-order list of table-name nodes; the regenerated field
   order of the classes that matter is the textual order; the column walk stops at sub-queries. *)
From Coq Require Import List NArith ZArith Bool String Ascii Lia.
Require Import Base.Common Gen.LexTable Lex.Model Cur.Model Tree.Value Tree.Canon Tree.Eq Gen.Schema Gen.Static Parse.Prim Parse.Model Print.Model Ana.Model.
Import ListNotations.
Open Scope string_scope.
Open Scope list_scope.

(* ---------- specification: all table-name nodes of a tree, in pre-order (fields in order, tuple elements in order) ---------- *)
Fixpoint preorder_tables (v : value) : list stable :=
  match v with
  | VNode c fs =>
      if String.eqb c "ASTTableNameExpression" then [(opt_of (get "schema_name" v), str_of (get "table_name" v))]
      else (fix go (l : list (string * value)) : list stable := match l with [] => [] | (_, x) :: l' => preorder_tables x ++ go l' end) fs
  | VTuple l | VList l => (fix go (l : list value) : list stable := match l with [] => [] | x :: l' => preorder_tables x ++ go l' end) l
  | _ => []
  end.

Definition fields_spec (fs : list (string * value)) : list stable :=
  (fix go (l : list (string * value)) : list stable := match l with [] => [] | (_, x) :: l' => preorder_tables x ++ go l' end) fs.
Definition items_spec (l : list value) : list stable :=
  (fix go (l : list value) : list stable := match l with [] => [] | x :: l' => preorder_tables x ++ go l' end) l.

Definition fdepth (fs : list (string * value)) : nat :=
  (fix go (l : list (string * value)) : nat := match l with [] => O | (_, x) :: l' => Nat.max (vdepth x) (go l') end) fs.
Definition ldepth (l : list value) : nat :=
  (fix go (l : list value) : nat := match l with [] => O | x :: l' => Nat.max (vdepth x) (go l') end) l.

Theorem tables_walk_is_preorder : forall v fuel, (vdepth v <= fuel)%nat -> fold_value tables_handler fuel v = Ok (preorder_tables v).
Proof.
  induction v using value_ind'; intros fuel Hf.
  - (* node *)
    destruct fuel as [|n]; [simpl in Hf; lia|].
    cbn [fold_value tables_handler preorder_tables]. destruct (String.eqb c "ASTTableNameExpression"); [reflexivity|].
    change (vdepth (VNode c fs)) with (Datatypes.S (fdepth fs)) in Hf. assert (Hd : (fdepth fs <= n)%nat) by lia. clear Hf.
    change ((fix go (l : list (string * value)) : list stable := match l with [] => [] | (_, x) :: l' => preorder_tables x ++ go l' end) fs) with (fields_spec fs).
    induction fs as [|[k x] fs IH]; [reflexivity|].
    inversion H; subst. cbn [snd] in H2. change (fdepth ((k, x) :: fs)) with (Nat.max (vdepth x) (fdepth fs)) in Hd.
    rewrite (H2 n) by lia. rewrite (IH H3) by lia. reflexivity.
  - destruct fuel as [|n]; [simpl in Hf; lia|]. cbn [fold_value tables_handler preorder_tables].
    change (vdepth (VTuple l)) with (Datatypes.S (ldepth l)) in Hf. assert (Hd : (ldepth l <= n)%nat) by lia. clear Hf.
    change ((fix go (l0 : list value) : list stable := match l0 with [] => [] | x :: l' => preorder_tables x ++ go l' end) l) with (items_spec l).
    induction l as [|x l IH]; [reflexivity|]. inversion H; subst. change (ldepth (x :: l)) with (Nat.max (vdepth x) (ldepth l)) in Hd.
    rewrite (H2 n) by lia. rewrite (IH H3) by lia. reflexivity.
  - destruct fuel as [|n]; [simpl in Hf; lia|]. cbn [fold_value tables_handler preorder_tables].
    change (vdepth (VList l)) with (Datatypes.S (ldepth l)) in Hf. assert (Hd : (ldepth l <= n)%nat) by lia. clear Hf.
    change ((fix go (l0 : list value) : list stable := match l0 with [] => [] | x :: l' => preorder_tables x ++ go l' end) l) with (items_spec l).
    induction l as [|x l IH]; [reflexivity|]. inversion H; subst. change (ldepth (x :: l)) with (Nat.max (vdepth x) (ldepth l)) in Hd.
    rewrite (H2 n) by lia. rewrite (IH H3) by lia. reflexivity.
  - destruct fuel; [simpl in Hf; lia|reflexivity].
  - destruct fuel; [simpl in Hf; lia|reflexivity].
  - destruct fuel; [simpl in Hf; lia|reflexivity].
  - destruct fuel; [simpl in Hf; lia|reflexivity].
  - destruct fuel; [simpl in Hf; lia|reflexivity].
Qed.

Corollary all_tables_is_preorder v : all_tables v = Ok (preorder_tables v).
Proof. unfold all_tables. apply tables_walk_is_preorder. lia. Qed.

(* the analysis never fails, reports nothing for atoms, and distributes over the fields / elements in order *)
Lemma preorder_node c fs : String.eqb c "ASTTableNameExpression" = false -> preorder_tables (VNode c fs) = fields_spec fs.
Proof. intros H. cbn [preorder_tables]. rewrite H. reflexivity. Qed.
Lemma fields_spec_cons k x fs : fields_spec ((k, x) :: fs) = preorder_tables x ++ fields_spec fs. Proof. reflexivity. Qed.
Lemma items_spec_cons x l : items_spec (x :: l) = preorder_tables x ++ items_spec l. Proof. reflexivity. Qed.

(* number of reported tables = number of table-name nodes: once per occurrence, nothing else *)
Fixpoint count_tables (v : value) : nat :=
  match v with
  | VNode c fs => if String.eqb c "ASTTableNameExpression" then 1%nat
                  else (fix go (l : list (string * value)) : nat := match l with [] => O | (_, x) :: l' => (count_tables x + go l')%nat end) fs
  | VTuple l | VList l => (fix go (l : list value) : nat := match l with [] => O | x :: l' => (count_tables x + go l')%nat end) l
  | _ => O
  end.
Theorem tables_once_per_occurrence : forall v, List.length (preorder_tables v) = count_tables v.
Proof.
  induction v using value_ind'; try reflexivity.
  - cbn [preorder_tables count_tables]. destruct (String.eqb c "ASTTableNameExpression"); [reflexivity|].
    induction fs as [|[k x] fs IH]; [reflexivity|]. inversion H; subst. cbn [snd] in H2. rewrite app_length, H2, (IH H3). reflexivity.
  - cbn [preorder_tables count_tables]. induction l as [|x l IH]; [reflexivity|]. inversion H; subst. rewrite app_length, H2, (IH H3). reflexivity.
  - cbn [preorder_tables count_tables]. induction l as [|x l IH]; [reflexivity|]. inversion H; subst. rewrite app_length, H2, (IH H3). reflexivity.
Qed.

(* ---------- field order of the regenerated schema = textual order of the clauses ---------- *)
Definition textual_order : list (string * list string) :=
  [ ("ASTSingleSelectStatement", ["with_clause"; "select_clause"; "from_clause"; "lateral_view_clauses"; "join_clauses"; "where_clause"; "group_by_clause";
                                  "having_clause"; "order_by_clause"; "sort_by_clause"; "distribute_by_clause"; "cluster_by_clause"; "limit_clause"]);
    ("ASTUnionSelectStatement", ["with_clause"; "elements"]);
    ("ASTSelectClause", ["distinct"; "columns"]); ("ASTSelectColumn", ["value"; "alias"]);
    ("ASTFromClause", ["tables"]); ("ASTFromTable", ["name"; "alias"]); ("ASTJoinClause", ["type"; "table"; "rule"]);
    ("ASTWithClause", ["tables"]); ("ASTWithTable", ["name"; "statement"]);
    ("ASTTableNameExpression", ["schema_name"; "table_name"]); ("ASTSubQueryExpression", ["statement"]);
    ("ASTWhereClause", ["condition"]); ("ASTHavingClause", ["condition"]); ("ASTJoinOnExpression", ["condition"]);
    ("ASTInExpression", ["is_not"; "before_value"; "after_value"]); ("ASTExistsExpression", ["value"]);
    ("ASTLogicalAndExpression", ["before_value"; "after_value"]); ("ASTLogicalOrExpression", ["before_value"; "after_value"]);
    ("ASTOperatorConditionExpression", ["before_value"; "after_value"; "operator"]);   (* the operator node holds no name: operands stay in textual order *)
    ("ASTGroupByClause", ["columns"; "grouping_sets"; "with_cube"; "with_rollup"]); ("ASTOrderByClause", ["columns"]);
    ("ASTInsertSelectStatement", ["with_clause"; "insert_type"; "table_name"; "partition"; "columns"; "select_statement"]) ].
Definition order_ok (p : string * list string) : bool :=
  match find_class (fst p) schema with
  | Some ci => if list_eq_dec string_dec (map f_name (c_fields ci)) (snd p) then true else false
  | None => false
  end.
Lemma schema_order_textual : forallb order_ok textual_order = true.
Proof. vm_compute. reflexivity. Qed.

(* ---------- C15: level locality and the special cases, for arbitrary field contents ---------- *)
Lemma cols_stop_at_subquery fs n : node_cols (Datatypes.S n) (VNode "ASTSubQueryExpression" fs) = Ok [].
Proof. reflexivity. Qed.
Lemma cols_stop_at_with fs n : node_cols (Datatypes.S n) (VNode "ASTWithClause" fs) = Ok [].
Proof. reflexivity. Qed.
Lemma cols_wildcard fs n : node_cols (Datatypes.S n) (VNode "ASTWildcardExpression" fs)
  = Ok [mkq (opt_of (get "table_name" (VNode "ASTWildcardExpression" fs))) (Some (S "*")) None].
Proof. reflexivity. Qed.

(* alias / ordinal resolution: a reference equal to a select alias (or position) is replaced by that item's columns *)
Lemma format_resolves c rest single al ix l :
  select_hashes 1 (ftuple "columns" (get "select_clause" single)) = Ok (al, ix) -> dict_get c al = Some l ->
  exists tail, format_cols (c :: rest) single = Ok (l ++ tail).
Proof. intros H1 H2. unfold format_cols. rewrite H1. cbn [flat_map]. rewrite H2. eexists. reflexivity. Qed.
Lemma format_keeps c rest single al ix :
  select_hashes 1 (ftuple "columns" (get "select_clause" single)) = Ok (al, ix) -> dict_get c al = None -> dict_get c ix = None ->
  exists tail, format_cols (c :: rest) single = Ok (c :: tail).
Proof. intros H1 H2 H3. unfold format_cols. rewrite H1. cbn [flat_map]. rewrite H2, H3. eexists. reflexivity. Qed.

(* ---------- computed examples on the parser + analyser models ---------- *)
Require Import Parse.Entry Ana.Entry.
Definition tables_of_text (which : string) (text : string) : option (list (option string * string)) := None.
Definition tbl (s : option string) (t : string) : stable := (option_map S s, S t).
Definition stable_eqb (a b : stable) : bool :=
  match fst a, fst b with Some x, Some y => str_eqb x y | None, None => true | _, _ => false end && str_eqb (snd a) (snd b).
Fixpoint list_eqb {A} (e : A -> A -> bool) (a b : list A) : bool :=
  match a, b with [], [] => true | x :: a', y :: b' => e x y && list_eqb e a' b' | _, _ => false end.
Definition walk_tables_is (which text : string) (expect : list stable) : bool :=
  match walk_text which D_DEFAULT (S text) with Ok (Ok (WTables l)) => list_eqb stable_eqb l expect | _ => false end.
Definition c14_example_ok : bool :=
  walk_tables_is "tables_all"
    "WITH w AS (SELECT a FROM s1.base) SELECT (SELECT max(x) FROM t_sel), a FROM w, (SELECT b FROM db.inner1 JOIN inner2 ON 1 = 1) d LEFT JOIN j1 ON d.b = j1.b WHERE a IN (SELECT c FROM p1) AND EXISTS (SELECT 1 FROM p2)"
    [tbl (Some "s1") "base"; tbl None "t_sel"; tbl None "w"; tbl (Some "db") "inner1"; tbl None "inner2"; tbl None "j1"; tbl None "p1"; tbl None "p2"]
  && walk_tables_is "tables_from" "SELECT a FROM t1, (SELECT b FROM t2) x JOIN t3 ON 1 = 1 UNION SELECT c FROM t4 JOIN t5 ON 1 = 1"
       [tbl None "t1"; tbl None "t2"; tbl None "t4"]
  && walk_tables_is "tables_join" "SELECT a FROM t1, (SELECT b FROM t2) x JOIN t3 ON 1 = 1 UNION SELECT c FROM t4 JOIN (SELECT 1 FROM t5) y ON 1 = 1"
       [tbl None "t3"; tbl None "t5"].

Definition q3 (t c : option string) (i : option Z) : qcol := mkq (option_map S t) (option_map S c) i.
Definition walk_cols_is (which text : string) (expect : list qcol) : bool :=
  match walk_text which D_DEFAULT (S text) with Ok (Ok (WCols l)) => list_eqb qcol_eqb l expect | _ => false end.
Definition c15_example_ok : bool :=
  let text := "SELECT t.a AS x, b + c AS y, count(1) AS n, CURRENT_DATE, u.* FROM t JOIN u ON t.k = u.k WHERE d > (SELECT max(e) FROM v WHERE v.f = t.a) GROUP BY x, 2 HAVING n > 1 ORDER BY y DESC, 1" in
  walk_cols_is "select" text [q3 (Some "t") (Some "a") None; q3 None (Some "b") None; q3 None (Some "c") None; q3 None None None; q3 (Some "u") (Some "*") None]
  && walk_cols_is "join" text [q3 (Some "t") (Some "k") None; q3 (Some "u") (Some "k") None]
  && walk_cols_is "where" text [q3 None (Some "d") None]
  && walk_cols_is "group_by" text [q3 (Some "t") (Some "a") None; q3 None (Some "b") None; q3 None (Some "c") None]
  && walk_cols_is "having" text [q3 None None None]
  && walk_cols_is "order_by" text [q3 None (Some "b") None; q3 None (Some "c") None; q3 (Some "t") (Some "a") None].
