(* Entry point of the WALK correspondence request *)
From Coq Require Import List NArith ZArith Bool String.
Require Import Base.Common Gen.LexTable Lex.Model Cur.Model Tree.Value Tree.Canon Gen.Static Parse.Prim Parse.Model Parse.Entry Print.Model Ana.Model.
Import ListNotations.
Open Scope string_scope.

Inductive walk_out := WTables (l : list stable) | WCols (l : list qcol).

Definition walk_text (which : string) (d : sqltype) (text : str) : res (res walk_out) :=
  match parse_text false "statements" d text with
  | Err e => Err e
  | Ok (VList [q]) =>
      Ok (if String.eqb which "tables_all" then match all_tables q with Ok l => Ok (WTables l) | Err e => Err e end
          else if String.eqb which "tables_from" then match from_tables q with Ok l => Ok (WTables l) | Err e => Err e end
          else if String.eqb which "tables_join" then match join_tables q with Ok l => Ok (WTables l) | Err e => Err e end
          else match analyse_cols which q with Ok l => Ok (WCols l) | Err e => Err e end)
  | Ok _ => Err ParseErr
  end.
