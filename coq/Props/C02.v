(* C02 -- Expression trees follow the documented operator precedence and grouping.  Statements only.
   The theorems are about the parser MODEL's own functions (Parse/Model.v: compute_loop, left_loop -- the functions
   that are extracted and run against SQLParser in the correspondence), generic in the operand parser, for expression
   trees of any size. *)
From Coq Require Import List NArith ZArith Bool String Ascii Lia.
Require Import Base.Common Gen.LexTable Lex.Model Cur.Model Tree.Value Gen.Static Parse.Prim Parse.Model Expr.Spec Expr.Proofs.
Import ListNotations.
Open Scope string_scope.
Open Scope N_scope.
Open Scope list_scope.

(* 1. The shift-reduce loop of _parse_compute_expression is precedence climbing with left associativity: on the tokens
   of ANY tree whose children bind at least as tight (left) / strictly tighter (right) than their parent -- everything
   else must have been written as a bracketed operand -- it returns exactly that tree and stops in front of the first
   token that is not a compute operator.  Holds for every operand parser and for the level table regenerated from
   core/static.py. *)
Theorem C02_compute_loop_is_precedence_climbing :
  forall (unary : toks -> PR) (e : cx) (ks : toks) (fuel : nat),
    proper e -> parts_ok unary e -> next_compute_op ks = None -> (nops e < fuel)%nat ->
    run_c unary fuel [] (cemit e ++ ks) = Ok (cval e, ks).
Proof. exact compute_parses_emit. Qed.

(* 2. The comparison / AND / XOR / OR layers fold a chain of operands to the left, whatever the operand parser. *)
Theorem C02_layers_left_associative :
  forall (sub : toks -> PR) (op : toks -> option (value -> value -> value) * toks) (links : list (link)) n acc ks,
    Forall (link_ok sub op) links -> fst (op ks) = None ->
    left_loop (List.length links + Datatypes.S n) sub op acc (flat_links links ++ ks)
    = Ok (fold_left (fun a k => lk_mk k a (lk_val k)) links acc, ks).
Proof. exact left_loop_chain. Qed.

(* 3. The regenerated level table is the documented one (^ 3; * / % 4; + - 5; shifts 6; & 7; | 8) ... *)
Theorem C02_levels_documented : forall o : binop, op_level (binop_enum o) = N.of_nat (binop_level o).
Proof. exact levels_documented. Qed.

(* ... every spelling (DIV / MOD in any letter case, <> / !=) denotes the documented operator ... *)
Theorem C02_binop_spellings : forall o n, assoc_str (upper (binop_text n o)) compute_operator_hash = Some (binop_enum o).
Proof. exact binop_spellings. Qed.
Theorem C02_cmpop_spellings : forall o n, assoc_str (cmpop_text n o) compare_operator_hash = Some (cmpop_enum o).
Proof. exact cmpop_spellings. Qed.

(* ... and `!` is NOT exactly for Hive and a unary operator exactly elsewhere. *)
Theorem C02_bang_by_dialect : forall d,
  mem_str (S "!") (unary_operator_set d) = negb (mem_str (S "!") (not_operator_set d)) /\
  (mem_str (S "!") (not_operator_set d) = match d with D_HIVE => true | _ => false end) /\
  mem_str (S "NOT") (not_operator_set d) = true /\
  forallb (fun o => mem_str o (unary_operator_set d)) [S "-"; S "+"; S "~"] = true.
Proof. exact bang_by_dialect. Qed.

(* 4. Grouping is observable: two specification trees with different structure have different result trees, so two
   inputs whose parentheses change grouping cannot parse to equal trees once parse (emit e) = embed e. *)
Theorem C02_grouping_injective : forall e1 e2, embed e1 = embed e2 -> e1 = e2.
Proof. exact embed_injective. Qed.

(* non-vacuity: a - b - c * d  parses (model, default dialect) to  ((a - b) - (c * d)) *)
Example C02_example :
  let ts := [Leaf (S "a") 2; Leaf (S "-") 0; Leaf (S "b") 2; Leaf (S "-") 0; Leaf (S "c") 2; Leaf (S "*") 0; Leaf (S "d") 2] in
  match run 20 F_compute D_DEFAULT None ts with
  | Ok (v, []) => v = embed (SBin B_SUB (SBin B_SUB (SCol None (S "a")) (SCol None (S "b"))) (SBin B_MUL (SCol None (S "c")) (SCol None (S "d"))))
  | _ => False
  end.
Proof. vm_compute. reflexivity. Qed.

Print Assumptions C02_compute_loop_is_precedence_climbing.
Print Assumptions C02_layers_left_associative.
Print Assumptions C02_levels_documented.
Print Assumptions C02_binop_spellings.
Print Assumptions C02_cmpop_spellings.
Print Assumptions C02_bang_by_dialect.
Print Assumptions C02_grouping_injective.
Print Assumptions C02_example.
