(* C04 -- Tokenisation is lossless and brackets are faithfully nested.
   Statements only; every proof is `exact <lemma of Lex/C04Proofs.v>`.  All theorems quantify over EVERY input
   string (list of code points, any length) and hold for the lexer model instantiated with the transition tables
   regenerated from /repo (Gen/LexTable.v); the model is tied to the code by the LEX correspondence run.

   lex_full is the model of FSMMachine.parse that additionally keeps, as ghost nodes, the text the real lexer drops
   (FSkip) and the text dropped by bracket openers / closers; lex = erase . lex_full is what the real lexer returns. *)
From Coq Require Import List NArith Bool Arith Lia.
Require Import Base.Common Gen.LexTable Lex.Model Lex.Invariants Lex.ImplFacts Lex.C04Proofs.
Import ListNotations.
Open Scope N_scope.

(* what the real lexer returns is the erasure of the ghost tree -- by definition *)
Theorem C04_tokens_are_erasure : forall mb f s,
  lex mb f s = match lex_full mb f s with Ok tr => Ok (erase tr) | Err e => Err e end.
Proof. reflexivity. Qed.

(* 1+2. For each of the 8 flag settings, base lexer and MyBatis plug-in lexer alike: the leaves, the skipped runs and the bracket texts, in order, concatenate to
   the (pre-processed) input; every skipped run is a blank, a line break, a line comment or a block comment; every
   group was opened and closed by the bracket characters of its own kind. *)
Theorem C04_partition : forall mb f s tr, (f < 8)%nat ->
  lex_full mb f s = Ok tr ->
  flatten tr = preproc s /\ forallb node_okb tr = true.
Proof. intros mb f s tr Hf H. exact (impl_lex_full_ok (table mb f) (preproc s) tr (adv_check_cfg mb f Hf) (ops_check_cfg_mb mb f Hf) H). Qed.

(* 3. With every retention option switched on (flags = 0) nothing is skipped, and concatenating the token texts
   (AMTBase.source, groups rendered with their own brackets) reproduces the input exactly. *)
Theorem C04_retain_all : forall s ts,
  lex false 0 s = Ok ts -> flat_map source ts = preproc s.
Proof.
  intros s ts. unfold lex. destruct (lex_full false 0 s) as [tr|e] eqn:E; [|discriminate].
  intros H; inversion H; subst ts.
  destruct (impl_lex_full_ok (table false 0) (preproc s) tr (adv_check_cfg false 0 ltac:(lia)) (ops_check_cfg 0 ltac:(lia)) E) as [H1 H2].
  rewrite <- H1. exact (source_erase tr (impl_lex_full_no_skip (table false 0) (preproc s) tr drop_free_retain E) H2).
Qed.

(* 4. No character is lost or duplicated by the driver: in all 16 configurations (plug-in included) the position moves
   by exactly one per loop iteration, so the character handed to the table is always the next unconsumed one. *)
Theorem C04_no_lost_char : forall mb f cs s m s' m' pending, (f < 8)%nat ->
  run_chars (impl_step (table mb f)) s m cs = Ok (s', m') -> rest m = cs ++ pending -> over m = 0%nat ->
  rest m' = pending /\ over m' = 0%nat /\ consumed m' ++ rest m' = consumed m ++ rest m.
Proof.
  intros mb f cs s m s' m' pending Hf H Hr Ho.
  destruct (run_chars_aligned (impl_step (table mb f)) (fun _ => True) (fun _ _ _ => I)
              (fun s0 k _ Hk => adv_check_char (table mb f) (adv_check_cfg mb f Hf) s0 k Hk)
              cs s m s' m' pending I H Hr Ho) as (_ & A & B & C & _).
  exact (conj A (conj B C)).
Qed.

(* 5. (weaker, but from the position check alone) every consumed character is accounted for in all configurations *)
Theorem C04_lossless_prefix_partial : forall mb f s tr, (f < 8)%nat ->
  lex_full mb f s = Ok tr -> exists w, flatten tr ++ w = preproc s.
Proof. intros mb f s tr Hf H. exact (impl_lex_full_lossless (table mb f) (preproc s) tr (adv_check_cfg mb f Hf) H). Qed.

(* non-vacuity: the hypotheses are met by a concrete accepted input with a comment, nesting of both kinds and a string *)
Example C04_example :
  lex false 7 [115;101;108;32;40;97;91;49;93;41;32;45;45;99;10;39;120;39]   (* "sel (a[1]) --c\n'x'" *)
  = Ok [Leaf [115;101;108] 2; Group KPar [Leaf [97] 2; Group KSlice [Leaf [49] 72]]; Leaf [39;120;39] 10].
Proof. vm_compute. reflexivity. Qed.

Print Assumptions C04_tokens_are_erasure.
Print Assumptions C04_partition.
Print Assumptions C04_retain_all.
Print Assumptions C04_no_lost_char.
Print Assumptions C04_lossless_prefix_partial.
Print Assumptions C04_example.
