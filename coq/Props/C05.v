(* C05 -- Token boundaries and token classes agree with the SQL token grammar.
   Statements only.  spec_lex is the no-backtrack maximal-munch tokenizer over the token-class DFAs of Lex/Spec.v
   (written without looking at the transition table); lex is the model of FSMMachine.parse over the tables
   regenerated from /repo.  Both sides are `res`: acceptance / rejection is part of the equation. *)
From Coq Require Import List NArith Bool Arith Lia.
Require Import Base.Common Gen.LexTable Lex.Model Lex.Invariants Lex.ImplFacts Lex.C04Proofs Lex.Spec Lex.Product Lex.C05Defs Lex.C05Proofs.
Import ListNotations.
Open Scope N_scope.

(* Main theorem, for EVERY string and each of the 8 flag settings: if the lock-step run of implementation and
   specification stays away from the finitely many deviating product cells `devs f` (an executable predicate),
   the implementation returns exactly what the specification returns -- same token boundaries, same marks, same
   nesting, same skipped material, same acceptance. *)
Theorem C05_lex_is_maximal_munch : forall f s, (f < 8)%nat ->
  avoids_devs f (preproc s) = true -> lex_full false f s = spec_lex_full false f s.
Proof. exact lex_is_spec_outside_devs. Qed.

Corollary C05_tokens : forall f s, (f < 8)%nat ->
  avoids_devs f (preproc s) = true -> lex false f s = spec_lex false f s.
Proof. intros f s Hf H. unfold lex, spec_lex. rewrite (lex_is_spec_outside_devs f s Hf H). reflexivity. Qed.

(* The list of deviating cells is complete (kernel-checked certificate: the reachable product is closed under all
   other cells) ... *)
Theorem C05_certificate : forall f, (f < 8)%nat ->
  closed_except st_eqb live_eqb (impl_stepI (tblf f)) (spec_step false f) sigma_chars (devs f) (Rf f) = true
  /\ In (S_WAIT, []) (Rf f).
Proof. exact cert. Qed.

(* ... and consists only of the three documented known-finding families
   (K-WORDTERM: # & ^ | ~ do not end a word or number;  K-ZEROX: 0x.. / 0b.. spellings are lexed as words;
    K-FLOATTERM: a decimal literal directly followed by a non-terminator is rejected). *)
Theorem C05_deviations_are_known : forallb (fun f => forallb known_dev (devs f)) (seq 0 8) = true.
Proof. exact devs_known. Qed.

(* bare-word marks of the code = keyword table of the specification (clause keywords unmarked, TRUE/FALSE/NULL literal
   in any letter case, everything else a name), for every word *)
Theorem C05_word_marks : forall src, word_marks src = spec_word_marks src.
Proof. exact word_marks_is_spec. Qed.

(* the full statement (no region) is refuted on the faithful model, one witness per family *)
Theorem C05_refuted_wordterm : exists s, lex false 7 s <> spec_lex false 7 s.
Proof. exists w_wordterm. exact refuted_wordterm. Qed.
Theorem C05_refuted_zerox : exists s, lex false 7 s <> spec_lex false 7 s.
Proof. exists w_zerox. exact refuted_zerox. Qed.
Theorem C05_refuted_floatterm : exists s, lex false 7 s <> spec_lex false 7 s.
Proof. exists w_floatterm. exact refuted_floatterm. Qed.

(* non-vacuity: a text with every literal spelling, operators, comments and nesting lies outside every region *)
Example C05_example_region_free :
  avoids_devs 7 [120;39;49;70;39;32;60;61;62;32;49;46;53;44;39;97;39;39;98;39;32;40;96;110;96;41;47;42;99;42;47;66;34;48;49;34;59;110;117;108;108;32;45;45;32;120] = true.
  (* x'1F' <=> 1.5,'a''b' (`n`)/*c*/B"01";null -- x *)
Proof. vm_compute. reflexivity. Qed.

Print Assumptions C05_lex_is_maximal_munch.
Print Assumptions C05_tokens.
Print Assumptions C05_certificate.
Print Assumptions C05_deviations_are_known.
Print Assumptions C05_word_marks.
Print Assumptions C05_refuted_wordterm.
Print Assumptions C05_refuted_zerox.
Print Assumptions C05_refuted_floatterm.
Print Assumptions C05_example_region_free.
