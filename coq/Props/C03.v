(* C03 -- Every clause and element of a statement lands in the right slot of the tree.  Statements only.
   The slot theorems are about the parser model's own functions; the general claim (every statement of the grammar) is judged on
   the implementation against trees known by construction. *)
From Coq Require Import List NArith ZArith Bool String Ascii Lia.
Require Import Base.Common Gen.LexTable Lex.Model Cur.Model Tree.Value Gen.Static Parse.Prim Parse.Model Parse.LoopProofs Parse.C03Facts.
Import ListNotations.
Open Scope string_scope.
Open Scope N_scope.
Open Scope list_scope.

(* 1. LIMIT: both spellings store the count in `limit` and the offset in `offset`, for ALL integers and any continuation *)
Theorem C03_limit_offset_spelling : forall n m zn zm rest, py_int n = Some zn -> py_int m = Some zm ->
  parse_limit (Leaf (S "LIMIT") 0 :: Leaf n 72 :: Leaf (S "OFFSET") 0 :: Leaf m 72 :: rest)
  = Ok (node "ASTLimitClause" [("limit", VInt zn); ("offset", VInt zm)], rest).
Proof. exact limit_offset_spelling. Qed.
Theorem C03_limit_comma_spelling : forall n m zn zm rest, py_int n = Some zn -> py_int m = Some zm ->
  parse_limit (Leaf (S "limit") 0 :: Leaf m 72 :: Leaf (S ",") 0 :: Leaf n 72 :: rest)
  = Ok (node "ASTLimitClause" [("limit", VInt zn); ("offset", VInt zm)], rest).
Proof. exact limit_comma_spelling. Qed.

(* 2. every join type and every set operator of the regenerated enums is recognised as ITSELF when its words are followed by a
   name: the parser tries the members in declaration order, and no shorter member shadows a longer one (LEFT JOIN is not read as
   LEFT + alias, LEFT OUTER JOIN not as LEFT JOIN, UNION ALL not as UNION) *)
Theorem C03_join_types_recognised : enum_recognised enum_join_type = true.
Proof. exact join_types_recognised. Qed.
Theorem C03_union_types_recognised : enum_recognised enum_union_type = true.
Proof. exact union_types_recognised. Qed.

(* 3. an implicit alias is never taken from a word that starts the next clause: after a table name, CROSS / USING / SORT /
   DISTRIBUTE / CLUSTER stay where they are (any letter case, any continuation) *)
Theorem C03_clause_word_is_not_an_alias : forall w m rest,
  mem_str (upper w) [S "CROSS"; S "USING"; S "SORT"; S "DISTRIBUTE"; S "CLUSTER"] = true -> str_eqb (upper w) (S "AS") = false ->
  parse_alias (Leaf w m :: rest) = Ok (VNone, Leaf w m :: rest).
Proof. exact clause_word_not_alias. Qed.

(* 4. one statement with every clause through the models: each element sits in its slot *)
Example C03_example : c03_example_ok = true.
Proof. vm_compute. reflexivity. Qed.

Print Assumptions C03_limit_offset_spelling.
Print Assumptions C03_limit_comma_spelling.
Print Assumptions C03_join_types_recognised.
Print Assumptions C03_union_types_recognised.
Print Assumptions C03_clause_word_is_not_an_alias.
Print Assumptions C03_example.
