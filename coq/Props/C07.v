(* C07 -- Malformed input fails closed with the library's parse error; parsing terminates.  Statements only.
   Error kinds of the models: LexErr / ParseErr / NotSupport = the library's parse-error family; Crash k = an unrelated
   Python exception; OutOfFuel = the model's explicit recursion budget ran out (a model artefact: the harness checks
   that it never shows up with the budget fuel_for, and measures the real parser's step counts). *)
From Coq Require Import List NArith ZArith Bool String Ascii Lia.
Require Import Base.Common Gen.LexTable Lex.Model Lex.Invariants Lex.ImplFacts Lex.C04Proofs Lex.C07Proofs
               Cur.Model Tree.Value Tree.Helpers Gen.Static Parse.Prim Parse.Model Parse.Sweep Parse.Suffix Parse.Fuel Parse.Mono.
Import ListNotations.
Open Scope string_scope.

(* 1. The lexer -- base and MyBatis, all 8 flag settings, EVERY input string: the run is a structural recursion over the
   characters (it terminates by construction) and its only failure is the lexical error: no missing table cell is
   reachable from WAIT (finite closure check on the regenerated tables) and the group stack is never empty. *)
Theorem C07_lexer_fails_closed : forall mb f s e, (f < 8)%nat -> lex_full mb f s = Err e -> e = LexErr.
Proof. intros mb f s e Hf H. exact (glex_full_err (table mb f) (preproc s) e (crash_free_cfg mb f Hf) H). Qed.
Theorem C07_lexer_fails_closed' : forall mb f s e, (f < 8)%nat -> lex mb f s = Err e -> e = LexErr.
Proof.
  intros mb f s e Hf H. unfold lex in H. destruct (lex_full mb f s) as [tr|x] eqn:E; [discriminate|].
  inversion H; subst. exact (C07_lexer_fails_closed mb f s e Hf E).
Qed.

(* 2. The WHOLE parser model -- every parse function (fn), every dialect, every argument, EVERY token list (not only
   prefixes or mutations of valid statements) and every fuel: the outcome is a tree, a parse error, or out-of-fuel;
   never an unrelated exception.  (One induction on the fuel; each of the ~110 function bodies is discharged by the
   same syntax-directed tactic, Parse/Sweep.v.) *)
Theorem C07_parser_never_crashes : forall fuel f d a ts k,
  match a with Some x => no_list x = true | None => True end ->     (* None at every public entry point *)
  run fuel f d a ts <> Err (Crash k).
Proof. intros fuel f d a ts k Ha H. pose proof (RP_run fuel f d a ts Ha) as R. rewrite H in R. discriminate R. Qed.

Theorem C07_statements_never_crash : forall n fuel d ts k, statements_loop n fuel d ts [] <> Err (Crash k).
Proof. intros n fuel d ts k H. pose proof (RP_statements_loop n fuel d ts [] (Forall_nil _)) as R. rewrite H in R. discriminate R. Qed.

(* 2b. TERMINATION.  The parser model recurses on an explicit budget; the budget its entry points use (fuel_for: linear in the size of
   the token tree) is adequate for EVERY parse function, dialect, argument and token list, and so is the loop budget of parse_statements
   (one more than the number of tokens) for every script: the model's own OutOfFuel is unreachable.  Proof (Parse/Fuel.v, third sweep
   over all function bodies): the functions are ranked along the calls that pass the same tokens on; every other recursive call is made
   after a token was consumed or on the children of a bracket group; every inner loop consumes a token per iteration. *)
Theorem C07_parser_terminates : forall f d a ts, run (fuel_for ts) f d a ts <> Err OutOfFuel.
Proof. exact fuel_for_adequate. Qed.
Theorem C07_script_terminates : forall d ts, statements_loop (Datatypes.S (List.length ts)) (fuel_for ts) d ts [] <> Err OutOfFuel.
Proof. exact script_budget_adequate. Qed.
(* together: on every token list every entry point ends in a tree or in one of the library's own errors *)
Theorem C07_parser_total : forall f d ts, match run (fuel_for ts) f d None ts with Ok _ => True | Err e => lib_err e = true end.
Proof. exact parser_total. Qed.
Theorem C07_script_total : forall d ts,
  match statements_loop (Datatypes.S (List.length ts)) (fuel_for ts) d ts [] with Ok _ => True | Err e => lib_err e = true end.
Proof. exact script_total. Qed.

(* 2b. The answer does not depend on the budget: any fuel at or above fuel_for gives the same result (Parse/Mono.v: a result other
   than "out of fuel" is unchanged by more fuel - one more sweep over every parse function), so with termination the fuelled model
   denotes ONE total function of (entry point, dialect, tokens).  The same for the statement loop and its two budgets. *)
Theorem C07_answer_independent_of_fuel : forall n f d a ts, (fuel_for ts <= n)%nat -> run n f d a ts = run (fuel_for ts) f d a ts.
Proof. exact run_fuel_independent. Qed.
Theorem C07_more_fuel_same_answer : forall n m f d a ts, (n <= m)%nat -> run n f d a ts <> Err OutOfFuel -> run m f d a ts = run n f d a ts.
Proof. exact run_fuel_stable. Qed.
Theorem C07_script_answer_independent_of_fuel : forall n fuel d ts, (Datatypes.S (List.length ts) <= n)%nat -> (fuel_for ts <= fuel)%nat ->
  statements_loop n fuel d ts [] = statements_loop (Datatypes.S (List.length ts)) (fuel_for ts) d ts [].
Proof. exact script_fuel_independent. Qed.

(* 3. A rejected input leaves no trace: the models are pure functions of their arguments -- there is no state a failed
   call could leave behind (determinism is the only thing to state) *)
Theorem C07_no_trace : forall fuel f d a ts r1 r2, run fuel f d a ts = r1 -> run fuel f d a ts = r2 -> r1 = r2.
Proof. intros. congruence. Qed.

(* non-vacuity: malformed inputs and their outcomes on the model *)
Example C07_example :
  lex false 7 [39; 97] = Err LexErr /\                                                   (* 'a   unterminated *)
  run 30 F_statement D_DEFAULT None [Leaf (S "SELECT") 0] = Err ParseErr /\             (* SELECT *)
  run 30 F_statement D_DEFAULT None [Leaf (S "USE") 0] = Err ParseErr /\                (* USE *)
  run 30 F_statement D_HIVE None [Leaf (S "SELECT") 0; Leaf (S "a") 2; Leaf (S ".") 0] = Err ParseErr.   (* SELECT a. *)
Proof. vm_compute. repeat split. Qed.

Print Assumptions C07_lexer_fails_closed.
Print Assumptions C07_lexer_fails_closed'.
Print Assumptions C07_parser_never_crashes.
Print Assumptions C07_statements_never_crash.
Print Assumptions C07_parser_terminates.
Print Assumptions C07_script_terminates.
Print Assumptions C07_parser_total.
Print Assumptions C07_script_total.
Print Assumptions C07_no_trace.
Print Assumptions C07_example.
Print Assumptions C07_answer_independent_of_fuel.
Print Assumptions C07_more_fuel_same_answer.
Print Assumptions C07_script_answer_independent_of_fuel.
