(* C08 -- No part of an accepted statement is silently ignored.  Statements only.
   What is proved concerns CONSUMPTION on the models: acceptance of a whole text means every token, at every bracket depth that
   is read through the closing primitives, was consumed.  That every consumed identifier / literal is also STORED in the tree is
   not a theorem here (it would be a second sweep over the parser model); it is judged on the implementation by unique renaming. *)
From Coq Require Import List NArith ZArith Bool String Ascii Lia.
Require Import Base.Common Gen.LexTable Lex.Model Cur.Model Cur.Proofs Tree.Value Gen.Static Parse.Prim Parse.Model Parse.C08Facts Cur.Split Parse.SplitFacts Parse.SepFacts Parse.Suffix Stmt.C06Facts Print.Model.
Import ListNotations.
Open Scope string_scope.
Open Scope list_scope.

(* 1. close() reports leftovers: it fails exactly when tokens remain (cursor model, every cursor) *)
Theorem C08_close_reports : forall c, snd (step c OClose) = CErr ParseErr <-> (pos c < len c)%nat.
Proof. exact close_reports. Qed.
Theorem C08_close_model : forall ts, close ts = Ok tt <-> ts = [].
Proof. exact close_ok_iff. Qed.

(* 2. every comma-separated segment of a bracket group that is parsed through each_closed is consumed completely, for ANY item parser:
   a leftover token inside a value list, column list, type parameter list, partition list, index column list ... is an error *)
Theorem C08_segments_fully_consumed : forall (item : toks -> PR) segs vs, each_closed item segs = Ok vs ->
  Forall2 (fun sg v => item sg = Ok (v, [])) segs vs.
Proof. exact each_closed_consumes. Qed.

(* 2b. the split itself loses nothing: a bracket group split at a separator and parsed segment by segment (pop_split + each_closed,
   ANY item parser, any separator) is accounted for token by token -- the accepted segments, in order, are the group's children with only
   the separators struck out; no segment is empty or contains a separator; each was consumed to its end; one value per segment *)
Theorem C08_split_group_accounted : forall (item : toks -> PR) s ts segs r vs,
  pop_split s ts = Ok (segs, r) -> each_closed item segs = Ok vs ->
  exists g, ts = g :: r /\ is_group g = true
    /\ List.concat segs = filter (not_sep s) (tok_children g)
    /\ Forall (fun sg => sg <> [] /\ Forall (fun t => is_sep s t = false) sg) segs
    /\ Forall2 (fun sg v => item sg = Ok (v, [])) segs vs
    /\ List.length vs = List.length segs
    /\ (List.length segs <= List.length (filter (is_sep s) (tok_children g)) + 1)%nat.
Proof. exact split_group_accounted. Qed.
(* 2c. and a leftover token in any one segment rejects the whole group *)
Theorem C08_split_group_leftover_rejected : forall (item : toks -> PR) segs1 sg segs2 v t rest,
  Forall (fun x => exists w, item x = Ok (w, [])) segs1 -> item sg = Ok (v, t :: rest) ->
  each_closed item (segs1 ++ sg :: segs2) = Err ParseErr.
Proof. exact split_group_leftover_rejected. Qed.

(* 2d. the separated-list loop `item (sep item)*` (the `while scanner.search_and_move_one_type_str(sep)` loops), ANY item parser: when it
   returns, no separator follows -- a list is read to its end, a trailing `, item` cannot be left behind by the loop -- and the first
   item's value heads the result *)
Theorem C08_list_read_to_end : forall (item : toks -> PR) sep ts vs rest,
  sep_list item sep ts = Ok (vs, rest) ->
  peek_str sep rest = false /\ exists v ts1 more, item ts = Ok (v, ts1) /\ vs = v :: more.
Proof. exact sep_list_reads_to_end. Qed.

(* 3. parse_statements accepts only when the whole token list has been consumed: every accepted run of the statement loop ends with
   an empty remainder (for any number of statements, any fuel, any dialect) *)
Theorem C08_statements_consume_everything : forall n fuel d ts acc vs, statements_loop n fuel d ts acc = Ok vs -> loop_consumed n fuel d ts = true.
Proof. exact statements_loop_consumed. Qed.

(* 3b. WHOLE parser model, every parse function, dialect, argument, token list and fuel: what a function hands back as "the remaining tokens"
   is a suffix of what it was given -- tokens are consumed from the front only, never re-ordered, invented or handed back (one induction on
   the fuel over all function bodies, Parse/Suffix.v). *)
Theorem C08_remainder_is_suffix : forall fuel f d a ts v rest,
  run fuel f d a ts = Ok (v, rest) -> exists consumed, ts = consumed ++ rest.
Proof. exact run_suffix. Qed.

(* 4. literals reach the printed text unchanged in every dialect (C06) *)
Theorem C08_literal_printed_verbatim : forall d s, print d (VNode "ASTLiteralExpression" [("value", VStr s)]) = Ok s.
Proof. exact print_literal_verbatim. Qed.

(* non-vacuity: a stray token inside a bracket group, after a statement, and between clauses is rejected by the model *)
Example C08_example : c08_example_ok = true.
Proof. vm_compute. reflexivity. Qed.

Print Assumptions C08_close_reports.
Print Assumptions C08_close_model.
Print Assumptions C08_segments_fully_consumed.
Print Assumptions C08_split_group_accounted.
Print Assumptions C08_split_group_leftover_rejected.
Print Assumptions C08_list_read_to_end.
Print Assumptions C08_statements_consume_everything.
Print Assumptions C08_remainder_is_suffix.
Print Assumptions C08_literal_printed_verbatim.
Print Assumptions C08_example.
