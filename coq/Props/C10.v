(* C10 -- A script parses to the concatenation of its statements.  Statements only.
   Model: Parse/Model.v statements_loop (SQLParser.parse_statements: loop { statement ; optional ';' } then close). *)
From Coq Require Import List NArith ZArith Bool String Ascii Lia.
Require Import Base.Common Gen.LexTable Lex.Model Cur.Model Tree.Value Gen.Static Parse.Prim Parse.Model Parse.LoopProofs Parse.ScriptFacts.
Import ListNotations.
Open Scope string_scope.
Open Scope list_scope.

(* 1. For ANY number of statements, each of which parses on its own and stops in front of a separator (item_ok), the
   script  s1 ; s2 ; ... ; sn  with or without a final separator parses to exactly their values, in order.  Generic in
   the statements, the dialect and the fuel; `n` only has to exceed the number of statements. *)
Theorem C10_script_is_concatenation :
  forall fuel d items final n,
    Forall (item_ok fuel d) items -> (List.length items < n)%nat ->
    statements_loop n fuel d (script items final) [] = Ok (map si_val items).
Proof. intros. rewrite (statements_loop_script fuel d items final n []); auto. Qed.

(* 2. A script of one statement is the stand-alone parse: same value (so "each equal to its stand-alone parse"). *)
Theorem C10_standalone :
  forall fuel d it, item_ok fuel d it ->
    statements_loop 2 fuel d (si_block it) [] = Ok [si_val it].
Proof.
  intros fuel d it H. pose proof (statements_loop_script fuel d [it] false 2 [] (Forall_cons _ H (Forall_nil _))) as E.
  cbn [script] in E. rewrite app_nil_r in E. apply E. simpl. lia.
Qed.

(* 3. The hypothesis is met by statements of several kinds, whatever follows the separator (non-vacuity, all dialects) *)
Theorem C10_items_exist : forall d,
  Forall (item_ok 30 d) [mksi (val_of 30 d use_block) use_block; mksi (val_of 30 d select_block) select_block;
                         mksi (val_of 30 d drop_block) drop_block; mksi (val_of 30 d delete_block) delete_block;
                         mksi (val_of 30 d set_block) set_block].
Proof.
  intros d. apply Forall_cons; [apply use_item|]. apply Forall_cons; [apply select_item|]. apply Forall_cons; [apply drop_item|].
  apply Forall_cons; [apply delete_item|]. apply Forall_cons; [apply set_item|]. apply Forall_nil.
Qed.

(* 4. hence, concretely: USE ; SELECT ; DROP ; DELETE ; SET  parses to the five stand-alone trees, with and without final ';' *)
Theorem C10_example : forall d final,
  statements_loop 6 30 d (script [mksi (val_of 30 d use_block) use_block; mksi (val_of 30 d select_block) select_block;
                                   mksi (val_of 30 d drop_block) drop_block; mksi (val_of 30 d delete_block) delete_block;
                                   mksi (val_of 30 d set_block) set_block] final) []
  = Ok [val_of 30 d use_block; val_of 30 d select_block; val_of 30 d drop_block; val_of 30 d delete_block; val_of 30 d set_block].
Proof. intros d final. apply (C10_script_is_concatenation 30 d _ final 6 (C10_items_exist d)). simpl. lia. Qed.

Print Assumptions C10_script_is_concatenation.
Print Assumptions C10_standalone.
Print Assumptions C10_items_exist.
Print Assumptions C10_example.
