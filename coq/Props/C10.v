(* C10 -- A script parses to the concatenation of its statements.  Statements only.
   Model: Parse/Model.v statements_loop (SQLParser.parse_statements: loop { statement ; optional ';' } then close). *)
From Coq Require Import List NArith ZArith Bool String Ascii Lia.
Require Import Base.Common Gen.LexTable Lex.Model Cur.Model Tree.Value Gen.Static Parse.Prim Parse.Model Parse.LoopProofs Parse.ScriptFacts Parse.Extend Lex.Compose Tree.Canon Parse.Entry Parse.TextScript Parse.Prepass.
Import ListNotations.
Open Scope string_scope.
Open Scope list_scope.

(* 1. For ANY number of statements, each of which parses on its own and stops in front of a separator (item_ok), the
   script  s1 ; s2 ; ... ; sn  with or without a final separator parses to exactly their values, in order.  Generic in
   the statements, the dialect and the fuel; `n` only has to exceed the number of statements. *)
Theorem C10_script_is_concatenation :
  forall fuel d items final n,
    Forall (item_ok fuel d) items -> (List.length items < n)%nat ->
    statements_loop n fuel d (script items final) [] = Ok (map si_val items).
Proof. intros. rewrite (statements_loop_script fuel d items final n []); auto. Qed.

(* 2. A script of one statement is the stand-alone parse: same value (so "each equal to its stand-alone parse"). *)
Theorem C10_standalone :
  forall fuel d it, item_ok fuel d it ->
    statements_loop 2 fuel d (si_block it) [] = Ok [si_val it].
Proof.
  intros fuel d it H. pose proof (statements_loop_script fuel d [it] false 2 [] (Forall_cons _ H (Forall_nil _))) as E.
  cbn [script] in E. rewrite app_nil_r in E. apply E. simpl. lia.
Qed.

(* 3. The hypothesis is met by statements of several kinds, whatever follows the separator (non-vacuity, all dialects) *)
Theorem C10_items_exist : forall d,
  Forall (item_ok 30 d) [mksi (val_of 30 d use_block) use_block; mksi (val_of 30 d select_block) select_block;
                         mksi (val_of 30 d drop_block) drop_block; mksi (val_of 30 d delete_block) delete_block;
                         mksi (val_of 30 d set_block) set_block].
Proof.
  intros d. apply Forall_cons; [apply use_item|]. apply Forall_cons; [apply select_item|]. apply Forall_cons; [apply drop_item|].
  apply Forall_cons; [apply delete_item|]. apply Forall_cons; [apply set_item|]. apply Forall_nil.
Qed.

(* 4. hence, concretely: USE ; SELECT ; DROP ; DELETE ; SET  parses to the five stand-alone trees, with and without final ';' *)
Theorem C10_example : forall d final,
  statements_loop 6 30 d (script [mksi (val_of 30 d use_block) use_block; mksi (val_of 30 d select_block) select_block;
                                   mksi (val_of 30 d drop_block) drop_block; mksi (val_of 30 d delete_block) delete_block;
                                   mksi (val_of 30 d set_block) set_block] final) []
  = Ok [val_of 30 d use_block; val_of 30 d select_block; val_of 30 d drop_block; val_of 30 d delete_block; val_of 30 d set_block].
Proof. intros d final. apply (C10_script_is_concatenation 30 d _ final 6 (C10_items_exist d)). simpl. lia. Qed.

(* 5. The parser does not look past a separator (Parse/Extend.v, a sweep over the whole parser model): whatever follows a ';'
   token, a parse function that returned (v, R) on ts returns (v, R ++ ';' :: E) on ts ++ ';' :: E -- same tree, same consumption.
   (All parse functions except the statement dispatcher and CREATE TABLE, which may swallow the one ';' that follows it.) *)
Theorem C10_no_lookahead_past_separator :
  forall fuel f d a ts v R E, strict f = true ->
    run fuel f d a ts = Ok (v, R) -> run fuel f d a (ts ++ semi :: E) = Ok (v, R ++ semi :: E).
Proof. intros fuel f d a ts v R E Hs H. exact (run_extend fuel f d a ts v R E Hs H). Qed.
Theorem C10_statement_and_separator :
  forall fuel d ts v R E, run fuel F_statement d None ts = Ok (v, R) ->
    run fuel F_statement d None (ts ++ semi :: E) = Ok (v, R ++ semi :: E) \/
    (R = [] /\ run fuel F_statement d None (ts ++ semi :: E) = Ok (v, E)).
Proof. intros fuel d ts v R E H. exact (statement_extend fuel d ts v R E H). Qed.

(* 6. Hence C10 with no hypothesis on how a statement stops: ANY statements that each parse on their own (completely), joined by
   ';' with or without a final one, parse to exactly their stand-alone trees in order.  Every dialect, every fuel, any length. *)
Theorem C10_script_of_standalone_statements :
  forall fuel d items final n,
    Forall (standalone fuel d) items -> (List.length items < n)%nat ->
    statements_loop n fuel d (script items final) [] = Ok (map si_val items).
Proof. intros fuel d items final n H Hn. exact (script_of_standalone fuel d items final n [] H Hn). Qed.

(* non-vacuity, including the statement that swallows a separator itself *)
Definition create_block := [W "CREATE"; W "TABLE"; Nm "t"; Group KPar [Nm "a"; Nm "INT"; W ","; Nm "b"; Nm "INT"]; W "ENGINE"; W "="; Nm "InnoDB"].
Example C10_standalone_items_exist : forall d,
  Forall (standalone 30 d) [mksi (val_of 30 d create_block) create_block; mksi (val_of 30 d select_block) select_block;
                            mksi (val_of 30 d create_block) create_block; mksi (val_of 30 d use_block) use_block].
Proof. intros d. repeat (apply Forall_cons; [destruct d; vm_compute; reflexivity|]). apply Forall_nil. Qed.
Example C10_create_block_is_a_tree : match run 30 F_statement D_MYSQL None create_block with Ok (VNode _ _, []) => True | _ => False end.
Proof. vm_compute. exact I. Qed.

(* 7. The lexer side (Lex/Compose.v): a ';' between two texts is lexed as a token of its own between their token lists - for both shipped
   lexers and all 8 flag settings - unless the first text ends inside a line comment, where the ';' belongs to the comment.  (Finite
   certificate on the regenerated tables: wherever the end of input is accepted, ';' acts as the end of input followed by the token ';'.) *)
Theorem C10_lexer_semicolon :
  forall mb (f : nat) s1 s2 t1 t2, (f < 8)%nat ->
    lex mb f s1 = Ok t1 -> lex mb f s2 = Ok t2 -> ends_in_line_comment mb f s1 = false ->
    lex mb f (s1 ++ 59%N :: s2) = Ok (t1 ++ semi :: t2).
Proof. intros mb f s1 s2 t1 t2 Hf H1 H2 Hc. exact (lex_semicolon mb f s1 s2 t1 t2 Hf H1 H2 Hc). Qed.

(* 8. C10 for TEXTS, end to end through the lexer model, the parser model and the canonical dump that is compared with the implementation:
   statement texts that each lex and parse completely on their own and do not end inside a line comment, written one after the other with
   ';' between them and optionally one at the end, parse to exactly their stand-alone trees - any number of statements, every dialect
   without a text-level pre-pass (all but Hive and DB2, whose str.replace shims are outside this theorem). *)
Theorem C10_text_script :
  forall d items final, (forall s, dialect_prepass d s = s) -> Forall (text_ok d) items ->
    parse_text false "statements" d (script_text (map ti_text items) final) = Ok (canon (VList (map ti_val items))).
Proof. intros d items final Hp H. exact (text_script d items final Hp H). Qed.

Definition ti_of (d : sqltype) (s : string) : titem :=
  let ts := match lex false 7 (S s) with Ok t => t | Err _ => [] end in mkti (S s) ts (val_of (fuel_for ts) d ts).
Example C10_texts_exist :
  Forall (text_ok D_MYSQL) [ti_of D_MYSQL "CREATE TABLE t (a INT, b VARCHAR(10)) ENGINE=InnoDB"; ti_of D_MYSQL "SELECT a, b FROM t WHERE a = 1 -- c
"; ti_of D_MYSQL "USE db1"] /\ (forall s, dialect_prepass D_MYSQL s = s).
Proof. split; [|reflexivity]. repeat (apply Forall_cons; [vm_compute; repeat split; reflexivity|]). apply Forall_nil. Qed.

(* 9. ... and for EVERY dialect: the Hive '==' and DB2 CURRENT DATE / TIME / TIMESTAMP shims are str.replace calls whose patterns contain no
   ';', so they commute with the split of the text at a separator (Parse/Prepass.v).  The statements are judged after their own pre-pass. *)
Theorem C10_text_script_any_dialect :
  forall d items final, Forall (fun it => text_ok d (pre_item d it)) items ->
    parse_text false "statements" d (script_text (map ti_text items) final) = Ok (canon (VList (map ti_val items))).
Proof. intros d items final H. exact (text_script_any_dialect d items final H). Qed.

Definition ti_pre (d : sqltype) (s : string) : titem :=
  let ts := match lex false 7 (dialect_prepass d (S s)) with Ok t => t | Err _ => [] end in mkti (S s) ts (val_of (fuel_for ts) d ts).
Example C10_hive_texts_exist :
  Forall (fun it => text_ok D_HIVE (pre_item D_HIVE it)) [ti_pre D_HIVE "SELECT a FROM t WHERE a == 1 AND ! b"; ti_pre D_HIVE "DROP TABLE IF EXISTS s.t"].
Proof. repeat (apply Forall_cons; [vm_compute; repeat split; reflexivity|]). apply Forall_nil. Qed.

Print Assumptions C10_script_is_concatenation.
Print Assumptions C10_standalone.
Print Assumptions C10_items_exist.
Print Assumptions C10_example.
Print Assumptions C10_no_lookahead_past_separator.
Print Assumptions C10_statement_and_separator.
Print Assumptions C10_script_of_standalone_statements.
Print Assumptions C10_standalone_items_exist.
Print Assumptions C10_lexer_semicolon.
Print Assumptions C10_text_script.
Print Assumptions C10_texts_exist.
Print Assumptions C10_text_script_any_dialect.
Print Assumptions C10_hive_texts_exist.
