(* C13 -- The requested dialect is honoured everywhere and never emitted wrongly.  Statements only. *)
From Coq Require Import List NArith ZArith Bool String Ascii Lia.
Require Import Base.Common Gen.LexTable Lex.Model Cur.Model Tree.Value Tree.Canon Gen.Schema Gen.Static Gen.Flow Flow.Dialect Flow.Facts
               Parse.Prim Parse.Model Parse.Entry Expr.Spec Expr.Proofs Print.Model Print.Proofs Stmt.C13Facts Parse.Dialect.
Import ListNotations.
Open Scope string_scope.

(* 1. Dialect delivery in the parser: along EVERY call path of the call graph regenerated from core/parser.py (any length,
   through the recursion) that ends in a function which can reach a dialect-sensitive function, every call passes the
   caller's own sql_type on -- no call relies on a default, none substitutes a constant. *)
Theorem C13_dialect_delivered : forall p d, p <> [] -> chain parser_edges p ->
  needs parser_funs parser_edges (target p d) = true ->
  Forall (fun e => pe_kind e = Param) p /\ needs parser_funs parser_edges (match p with e :: _ => pe_caller e | [] => d end) = true.
Proof. exact (dialect_delivered parser_funs parser_edges parser_graph_ok). Qed.

(* ... the same with the MyBatis plug-in's overrides added to the graph *)
Theorem C13_dialect_delivered_plugin : forall p d, p <> [] -> chain (parser_edges ++ plugin_edges) p ->
  needs (parser_funs ++ plugin_funs) (parser_edges ++ plugin_edges) (target p d) = true ->
  Forall (fun e => pe_kind e = Param) p.
Proof. intros p d H1 H2 H3. exact (proj1 (dialect_delivered _ _ plugin_graph_ok p d H1 H2 H3)). Qed.

(* the premises are not vacuous: the public statement entry points need the dialect, and at least four functions look at it *)
Theorem C13_entries_need_dialect :
  needs parser_funs parser_edges "parse_statements" = true /\ needs parser_funs parser_edges "parse_select_statement" = true.
Proof. exact entry_needs. Qed.

(* 2. Dialect delivery in the printers: every printer call made from a printer passes sql_type on; the only calls without it
   have a function-name node as receiver, the only constants sit in a method specialised for that dialect *)
Theorem C13_printers_deliver : forall c, In c printer_calls -> pc_kind c = Param \/ pc_excused c = true.
Proof. intros c H. right. pose proof printers_ok as B. unfold printer_ok in B. rewrite forallb_forall in B. exact (B c H). Qed.

(* 3. What the dialect means to the parser model: `!` is NOT exactly for Hive and a unary operator exactly elsewhere *)
Theorem C13_bang_by_dialect : forall d,
  mem_str (S "!") (unary_operator_set d) = negb (mem_str (S "!") (not_operator_set d)) /\
  (mem_str (S "!") (not_operator_set d) = match d with D_HIVE => true | _ => false end) /\
  mem_str (S "NOT") (not_operator_set d) = true /\
  forallb (fun o => mem_str o (unary_operator_set d)) [S "-"; S "+"; S "~"] = true.
Proof. exact bang_by_dialect. Qed.

(* 3b. ... and that is ALL it means to the parser model (Parse/Dialect.v, a sweep over every parse function): the dialect reaches the parser
   only through these two operator sets - every call passes it on unchanged and nothing else looks at it - so two dialects with the same
   sets are parsed identically by every parse function at every depth, and so are their scripts.  With the shipped tables: all dialects but
   Hive parse alike (they differ in their text pre-pass and their printers only). *)
Theorem C13_dialect_only_through_operator_sets : forall d d',
  unary_operator_set d' = unary_operator_set d -> not_operator_set d' = not_operator_set d ->
  forall fuel f a ts, run fuel f d a ts = run fuel f d' a ts.
Proof. exact dialect_frame. Qed.
Theorem C13_scripts_only_through_operator_sets : forall d d', same_sets d d' ->
  forall n fuel ts acc, statements_loop n fuel d ts acc = statements_loop n fuel d' ts acc.
Proof. exact same_sets_scripts_alike. Qed.
Example C13_frame_applies :
  same_sets D_MYSQL D_DEFAULT /\ same_sets D_ORACLE D_DB2 /\ same_sets D_POSTGRE_SQL D_SQL_SERVER /\ same_sets D_DB2 D_DEFAULT /\ ~ same_sets D_HIVE D_MYSQL.
Proof. repeat split; try reflexivity. intros [H _]. discriminate H. Qed.

(* ... at depth: inside a bracket inside a function argument inside a CASE arm inside a sub-query, for Hive, `! a = b` and
   `a == b` parse exactly like `NOT a = b` and `a = b`; for DB2 the two-word CURRENT DATE parses like CURRENT_DATE *)
Theorem C13_nested_examples : nested_examples_ok = true.
Proof. exact nested_examples. Qed.

(* 4. The printer model refuses what a dialect lacks with the not-supported error: `%` outside DEFAULT / MYSQL / SQL_SERVER /
   HIVE, array index outside HIVE; CREATE TABLE for a dialect other than MYSQL / HIVE raises the parse error *)
Theorem C13_mod_refused : forall d l r fuel, d_in d mod_dialects = false ->
  print_fuel (Datatypes.S (Datatypes.S (Datatypes.S fuel))) d (embed (SBin B_MOD (SCol None l) (SCol None r))) = Err NotSupport.
Proof. exact mod_refused. Qed.
Theorem C13_refusals : refusals_ok = true.
Proof. exact refusals. Qed.

Print Assumptions C13_dialect_delivered.
Print Assumptions C13_dialect_delivered_plugin.
Print Assumptions C13_entries_need_dialect.
Print Assumptions C13_printers_deliver.
Print Assumptions C13_bang_by_dialect.
Print Assumptions C13_nested_examples.
Print Assumptions C13_mod_refused.
Print Assumptions C13_refusals.
Print Assumptions C13_dialect_only_through_operator_sets.
Print Assumptions C13_scripts_only_through_operator_sets.
Print Assumptions C13_frame_applies.
