(* C09 -- Layout, comments, keyword case and redundant quoting do not change the tree.  Statements only.
   Proved here for the places where the parser model looks at token text; the whole-statement claim is judged on the
   implementation by surface variation of statements with known trees. *)
From Coq Require Import List NArith ZArith Bool String Ascii Lia.
Require Import Base.Common Gen.LexTable Lex.Model Cur.Model Tree.Value Gen.Static Parse.Prim Parse.Model Parse.LoopProofs Parse.C09Facts Expr.Spec Expr.Proofs Lex.Compose Lex.Layout Lex.Ghost.
Import ListNotations.
Open Scope string_scope.
Open Scope list_scope.

(* 1. Keyword case: every keyword test of the parser model (one, two-word and set-valued forms, operator words) sees a token
   only through str.upper(): two tokens with the same upper-case form are indistinguishable to it *)
Theorem C09_keyword_tests_case_blind : forall a b kw r, same_upper a b ->
  fst (take_up kw (a :: r)) = fst (take_up kw (b :: r)) /\
  (fst (take_up kw (a :: r)) = true -> snd (take_up kw (a :: r)) = r /\ snd (take_up kw (b :: r)) = r).
Proof. exact take_up_case. Qed.
Theorem C09_keyword_pairs_case_blind : forall a b a2 b2 k1 k2 r, same_upper a b -> same_upper a2 b2 ->
  fst (take_up2 k1 k2 (a :: a2 :: r)) = fst (take_up2 k1 k2 (b :: b2 :: r)).
Proof. exact take_up2_case. Qed.
Theorem C09_keyword_sets_case_blind : forall a b kws r, same_upper a b -> fst (take_set_up kws (a :: r)) = fst (take_set_up kws (b :: r)).
Proof. exact take_set_up_case. Qed.
Theorem C09_operator_words_case_blind : forall a b r, same_upper a b -> next_compute_op (a :: r) = next_compute_op (b :: r).
Proof. exact next_compute_op_case. Qed.
Theorem C09_lower_case_letter_same_upper : forall c, N.ltb c 128 = true -> upper1 (lower1 c) = upper1 c.
Proof. exact upper1_lower1. Qed.

(* 2. Redundant quoting: a name in back-quotes is the same name *)
Theorem C09_backquotes_redundant : forall s, unify_name (96%N :: s ++ [96%N]) = unify_name s.
Proof. exact backquotes_redundant. Qed.

(* 3. Equivalent operator spellings: DIV / MOD in any case and <> / != denote the documented operator (all spellings of the
   specification); && / AND and || / OR are taken by the same layer; both LIMIT spellings give the same clause *)
Theorem C09_binop_spellings : forall o n, assoc_str (upper (binop_text n o)) compute_operator_hash = Some (binop_enum o).
Proof. exact binop_spellings. Qed.
Theorem C09_cmpop_spellings : forall o n, assoc_str (cmpop_text n o) compare_operator_hash = Some (cmpop_enum o).
Proof. exact cmpop_spellings. Qed.
Theorem C09_and_or_spellings :
  forallb (fun w => fst (take_set_up [S "AND"; S "&&"] [Leaf (S w) 0])) and_spellings &&
  forallb (fun w => fst (take_set_up [S "OR"; S "||"] [Leaf (S w) 0])) or_spellings = true.
Proof. exact and_or_spellings. Qed.
Theorem C09_limit_spellings_agree : forall n m zn zm rest, py_int n = Some zn -> py_int m = Some zm ->
  parse_limit (Leaf (S "LIMIT") 0 :: Leaf n 72 :: Leaf (S "OFFSET") 0 :: Leaf m 72 :: rest)
  = parse_limit (Leaf (S "limit") 0 :: Leaf m 72 :: Leaf (S ",") 0 :: Leaf n 72 :: rest).
Proof. intros. rewrite (limit_offset_spelling n m zn zm rest) by assumption. rewrite (limit_comma_spelling n m zn zm rest) by assumption. reflexivity. Qed.

(* 6. Layout at the lexer (Lex/Layout.v; shipped flags, base lexer and plug-in): a blank between two texts that lex on their own is nothing but
   layout - the token list is the concatenation - unless the first text ends inside a line comment (the blank then belongs to the comment); a
   line break is layout without that exception, because it also ends a line comment.  Applied repeatedly: neither the number of blanks and line
   breaks between two complete pieces of a text nor a comment line between them changes the tokens, hence the tree. *)
Theorem C09_blank_is_layout : forall mb s1 s2 t1 t2,
  lex mb 7 s1 = Ok t1 -> lex mb 7 s2 = Ok t2 -> ends_in_line_comment mb 7 s1 = false ->
  lex mb 7 (s1 ++ 32%N :: s2) = Ok (t1 ++ t2).
Proof. exact lex_blank. Qed.
Theorem C09_line_break_is_layout : forall mb s1 s2 t1 t2,
  forallb plain_char s1 = true -> forallb plain_char s2 = true ->
  lex mb 7 s1 = Ok t1 -> lex mb 7 s2 = Ok t2 -> ends_in_placeholder mb s1 = false ->
  lex mb 7 (s1 ++ 10%N :: s2) = Ok (t1 ++ t2).
Proof. exact lex_newline. Qed.
Example C09_layout_example :
  lex false 7 (S "SELECT a -- c" ++ 10%N :: S "FROM t") = lex false 7 (S "SELECT a" ++ 32%N :: S "FROM t") /\
  ends_in_line_comment false 7 (S "SELECT a -- c") = true /\ ends_in_line_comment false 7 (S "SELECT a") = false /\
  ends_in_placeholder false (S "SELECT a -- c") = false.
Proof. vm_compute. repeat split. Qed.

(* 7. ... and at ANY bracket depth, for ANY continuation (Lex/Ghost.v): an extra blank or line break at a point where the lexer stands between
   tokens (state WAIT after the prefix) changes nothing - the token trees are equal, and a rejected text is rejected with the same error.  The
   two runs differ by one ghost item; memories that agree up to ghosts stay so under every effect of the transducer. *)
Theorem C09_extra_layout_is_invisible : forall mb (c : N) p1 p2, (c = 32%N \/ c = 10%N) ->
  forallb plain_char p1 = true -> forallb plain_char p2 = true -> end_state (table mb 7) p1 = Some S_WAIT ->
  lex mb 7 (p1 ++ c :: p2) = lex mb 7 (p1 ++ p2).
Proof. exact lex_extra_layout_plain. Qed.
Example C09_extra_layout_example :
  end_state (table false 7) (S "SELECT f(a, (b +") = Some S_WAIT /\ end_state (table false 7) (S "SELECT f(a, (col") = Some S_IN_WORD /\
  forallb plain_char (S "SELECT f(a, (b +") = true.
Proof. vm_compute. repeat split. Qed.

Print Assumptions C09_keyword_tests_case_blind.
Print Assumptions C09_keyword_pairs_case_blind.
Print Assumptions C09_keyword_sets_case_blind.
Print Assumptions C09_operator_words_case_blind.
Print Assumptions C09_lower_case_letter_same_upper.
Print Assumptions C09_backquotes_redundant.
Print Assumptions C09_binop_spellings.
Print Assumptions C09_cmpop_spellings.
Print Assumptions C09_and_or_spellings.
Print Assumptions C09_limit_spellings_agree.
Print Assumptions C09_blank_is_layout.
Print Assumptions C09_line_break_is_layout.
Print Assumptions C09_layout_example.
Print Assumptions C09_extra_layout_is_invisible.
Print Assumptions C09_extra_layout_example.
