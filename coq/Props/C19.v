(* C19 -- Work grows linearly with input size.  Statements only.  Cost is part of the models: the lexer model counts
   FSMMachine.handle calls and memory effects, the cursor model exposes its position after every call.
   Seconds are not part of any model: they are measured by the harness. *)
From Coq Require Import List NArith ZArith Bool String Ascii Lia.
Require Import Base.Common Gen.LexTable Lex.Model Lex.Invariants Lex.ImplFacts Lex.C04Proofs Lex.C07Proofs Cur.Model Cur.Proofs Tree.Value Gen.Static Parse.Prim Parse.Model Parse.Suffix.
Import ListNotations.

(* 1. Lexing handles each input character at most twice (plus one call for the end marker): for EVERY string, accepted or
   rejected, base and MyBatis tables, all flag settings *)
Theorem C19_handle_calls_linear : forall mb f s, (lex_handle_calls mb f s <= 2 * List.length s + 1)%nat.
Proof. exact lex_handle_calls_bound. Qed.
Theorem C19_at_most_two_per_character : forall tbl st k, (handle_calls tbl st k <= 2)%nat.
Proof. exact handle_calls_le2. Qed.

(* 2. ... each call performs at most two elementary memory effects (move, emit, drop, open, close) *)
Theorem C19_effects_per_character : forall tbl st k, (List.length (snd (impl_step tbl st k)) <= 4)%nat.
Proof. exact step_effs_le4. Qed.

(* 3. ... the pre-pass does not lengthen the text, and the driver consumes exactly one character per iteration (so the
   text is never re-scanned): positions advance by one per loop iteration in all 16 configurations *)
Theorem C19_prepass_not_longer : forall s, (List.length (preproc s) <= List.length s)%nat.
Proof. exact preproc_length. Qed.
Theorem C19_one_character_per_iteration : forall mb f cs s m s' m' pending, (f < 8)%nat ->
  run_chars (impl_step (table mb f)) s m cs = Ok (s', m') -> rest m = cs ++ pending -> over m = 0%nat ->
  rest m' = pending /\ over m' = 0%nat.
Proof.
  intros mb f cs s m s' m' pending Hf H Hr Ho.
  destruct (run_chars_aligned (impl_step (table mb f)) (fun _ => True) (fun _ _ _ => I)
              (fun s0 k _ Hk => adv_check_char (table mb f) (adv_check_cfg mb f Hf) s0 k Hk)
              cs s m s' m' pending I H Hr Ho) as (_ & A & B & _). exact (conj A B).
Qed.

(* 4. The token cursor only moves forward: along EVERY history of cursor calls the positions are non-decreasing, one call
   advances by at most the number of tokens it was asked about, and peeking calls do not move at all *)
Theorem C19_cursor_forward_only : forall ops c, sorted_from (pos c) (map fst (fst (run_ops c ops))).
Proof. exact history_monotone. Qed.
Theorem C19_cursor_step_bounded : forall c o, (pos (fst (step c o)) <= pos c + max_adv o)%nat.
Proof. exact step_bounded. Qed.

(* 5. The recursive-descent parser never moves its cursor backwards either: for EVERY parse function of the model, dialect, argument,
   token list and fuel, the tokens left over are a suffix of the tokens given, so no function can hand a longer list to its caller than it
   received and no token is scanned again by the caller (Parse/Suffix.v) *)
Theorem C19_parser_forward_only : forall fuel f d a ts v rest,
  run fuel f d a ts = Ok (v, rest) -> (List.length rest <= List.length ts)%nat.
Proof. exact run_never_longer. Qed.

(* non-vacuity: handle calls of "a=1 -- c" + newline, shipped flags: 10 characters, 14 calls <= 21 *)
Example C19_example : lex_handle_calls false 7 [97; 61; 49; 32; 45; 45; 32; 99; 10; 98] = 14%nat.
Proof. vm_compute. reflexivity. Qed.

Print Assumptions C19_handle_calls_linear.
Print Assumptions C19_at_most_two_per_character.
Print Assumptions C19_effects_per_character.
Print Assumptions C19_prepass_not_longer.
Print Assumptions C19_one_character_per_iteration.
Print Assumptions C19_cursor_forward_only.
Print Assumptions C19_cursor_step_bounded.
Print Assumptions C19_parser_forward_only.
Print Assumptions C19_example.
