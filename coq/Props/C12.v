(* C12 -- Results depend only on the input text and dialect.  Statements only.
   What a model can carry: (1) the schedule-independence of threads that only read shared state; (2) the frame census of the real
   source, regenerated on every run: no function of the package writes state shared between calls; (3) no hash-order dependent
   construction of an ordered result; (4) every model function is a function of its arguments.  What it cannot exhibit -- real
   interleavings under the GIL, interpreter-level caches, hash seeds -- is exercised by the harness. *)
From Coq Require Import List NArith Bool String Arith Lia.
Require Import Base.Common Base.ReadOnlyShared Gen.Frame Gen.LexTable Lex.Model Cur.Model Tree.Value Gen.Static Parse.Prim Parse.Model.
Import ListNotations.

(* 1. Under EVERY schedule, a thread whose steps read the shared component and write only its own local component ends in the
   state it reaches when run alone: after any interleaving, thread i has executed exactly its first (number of times it was
   scheduled) steps, as if alone; the shared component is never changed *)
Theorem C12_schedule_independent : forall (G L : Type) (sched : list nat) (c0 : config G L) (i : nat),
  locals G L (exec G L c0 sched) i = alone G L (shared G L c0) (progs G L c0 i) (count_occ Nat.eq_dec sched i) (locals G L c0 i) /\
  progs G L (exec G L c0 sched) i = rest_after G L (progs G L c0 i) (count_occ Nat.eq_dec sched i).
Proof. exact schedule_independent. Qed.
Theorem C12_shared_never_written : forall (G L : Type) (c : config G L) sched, shared G L (exec G L c sched) = shared G L c.
Proof. exact shared_const. Qed.

(* 2. The hypothesis of (1) for the real code: in the 37 source files of the package no function or method contains a `global` /
   `nonlocal`, a store or a mutating call on a module-level object or on `cls`, or an object.__setattr__ (census regenerated from
   /repo's working tree on every run; module-level table construction runs once at import and is not a call) *)
Theorem C12_no_shared_writes : shared_writes = [].
Proof. reflexivity. Qed.

(* 3. No ordered result is built from the iteration order of a Python set (which varies with the hash seed) *)
Theorem C12_no_hash_order : set_orders = [].
Proof. reflexivity. Qed.

(* 4. History independence on the models: the result of a call is a function of its arguments -- a failed call included -- so
   whatever was parsed before cannot matter *)
Theorem C12_models_are_functions : forall fuel f d a ts fuel' f' d' a' ts',
  fuel = fuel' -> f = f' -> d = d' -> a = a' -> ts = ts' -> run fuel f d a ts = run fuel' f' d' a' ts'.
Proof. intros; subst; reflexivity. Qed.

Print Assumptions C12_schedule_independent.
Print Assumptions C12_shared_never_written.
Print Assumptions C12_no_shared_writes.
Print Assumptions C12_no_hash_order.
Print Assumptions C12_models_are_functions.
