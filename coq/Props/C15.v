(* C15 -- Per-clause column usage is exact, level-local and resolves aliases and ordinals.  Statements only.
   Model: Ana/Model.v (CurrentNodeUsedQuoteColumn + the per-clause analysers + _format_quote_columns). *)
From Coq Require Import List NArith ZArith Bool String Ascii Lia.
Require Import Base.Common Gen.LexTable Lex.Model Cur.Model Tree.Value Tree.Canon Gen.Schema Gen.Static Parse.Prim Parse.Model Print.Model Ana.Model Ana.Proofs.
Import ListNotations.
Open Scope string_scope.
Open Scope list_scope.

(* 1. Level locality: the column walk returns nothing for a sub-query node, whatever it contains -- so columns of a nested
   query never leak into the enclosing level (for every content of the node and every fuel) *)
Theorem C15_stops_at_subquery : forall fs n, node_cols (Datatypes.S n) (VNode "ASTSubQueryExpression" fs) = Ok [].
Proof. exact cols_stop_at_subquery. Qed.

Theorem C15_stops_at_with_tables : forall fs n, node_cols (Datatypes.S n) (VNode "ASTWithClause" fs) = Ok [].
Proof. exact cols_stop_at_with. Qed.

(* 2. A wildcard is reported as `*` with its qualifier *)
Theorem C15_wildcard : forall fs n, node_cols (Datatypes.S n) (VNode "ASTWildcardExpression" fs)
  = Ok [mkq (opt_of (get "table_name" (VNode "ASTWildcardExpression" fs))) (Some (S "*")) None].
Proof. exact cols_wildcard. Qed.

(* 3. Alias / ordinal resolution (_format_quote_columns): a reference that equals a select-list alias is replaced by the columns
   that select item reads; a reference that is neither an alias nor a position is kept as it is -- for any reference list *)
Theorem C15_alias_resolved : forall c rest single al ix l,
  select_hashes 1 (ftuple "columns" (get "select_clause" single)) = Ok (al, ix) -> dict_get c al = Some l ->
  exists tail, format_cols (c :: rest) single = Ok (l ++ tail).
Proof. exact format_resolves. Qed.
Theorem C15_plain_reference_kept : forall c rest single al ix,
  select_hashes 1 (ftuple "columns" (get "select_clause" single)) = Ok (al, ix) -> dict_get c al = None -> dict_get c ix = None ->
  exists tail, format_cols (c :: rest) single = Ok (c :: tail).
Proof. exact format_keeps. Qed.

(* 4. The clauses are read in textual order (regenerated field order, shared with C14) *)
Theorem C15_field_order_is_textual_order : forallb order_ok textual_order = true.
Proof. exact schema_order_textual. Qed.

(* 5. One query through every clause analyser on the parser + analyser models: qualifiers, aliases x / y / n and positions 1 / 2
   resolved, COUNT(1) anonymous, CURRENT_DATE not a column, the scalar sub-query of WHERE invisible *)
Example C15_example : c15_example_ok = true.
Proof. vm_compute. reflexivity. Qed.

Print Assumptions C15_stops_at_subquery.
Print Assumptions C15_stops_at_with_tables.
Print Assumptions C15_wildcard.
Print Assumptions C15_alias_resolved.
Print Assumptions C15_plain_reference_kept.
Print Assumptions C15_field_order_is_textual_order.
Print Assumptions C15_example.
