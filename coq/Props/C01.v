(* C01 -- Print/parse round trip is a fixed point.  PARTIAL: the theorems below cover the printer's grouping rule and
   refusals on the model; the round trip itself (parse . print . parse = parse, print . parse . print = print) is
   decided on the implementation by the round-trip oracle and on the extracted parser / printer models by
   correspondence, over generated statements of every kind, the shipped corpora and all dialects. *)
From Coq Require Import List NArith ZArith Bool String Ascii Lia.
Require Import Base.Common Gen.LexTable Lex.Model Cur.Model Tree.Value Tree.Canon Gen.Schema Gen.Static Parse.Prim Parse.Model
               Parse.Entry Expr.Spec Expr.Proofs Print.Model Print.Proofs Print.Total.
Import ListNotations.
Open Scope string_scope.
Open Scope N_scope.
Open Scope list_scope.

(* the printer brackets an operand exactly when it binds looser than its position allows ... *)
Theorem C01_operand_bracketing_partial : forall pr d v maxl s, pr d v = Ok s ->
  operand pr d v maxl = Ok (if maxl <? expression_level v then S "(" ++ s ++ S ")" else s).
Proof. exact operand_rule. Qed.

(* ... and it judges "looser" by the documented precedence table: the level the printer assigns to the tree of any
   specification expression (through isinstance over the regenerated class hierarchy and the regenerated operator
   levels) is the documented level -- the same table the parser theorems of C02 use *)
Theorem C01_printer_level_documented_partial : forall e, expression_level (embed e) = N.of_nat (level e).
Proof. exact printer_level_documented. Qed.

(* 3. Printing is total: on EVERY tree (not only parser output) and in every dialect the printer model ends in text or in one of the printer's own
   errors -- never in its own out-of-budget outcome -- as soon as the recursion budget exceeds the depth of the tree by 4; the entry point `print`
   budgets twice the depth of its argument and is adequate whenever filling in omitted default fields does not more than double the depth
   (Print/Total.v: every recursive call goes to a field value, an element of a tuple field, a UNION branch with its WITH clause emptied, or an
   operator node held by the class, which prints without recursion) *)
Theorem C01_printer_total_partial : forall n d v, (vdepth v + 4 <= n)%nat -> print_fuel n d v <> Err OutOfFuel.
Proof. exact print_fuel_total. Qed.
Theorem C01_print_entry_total_partial : forall d v, (vdepth (canon v) <= 2 * vdepth v)%nat -> print d v <> Err OutOfFuel.
Proof. exact print_total. Qed.

(* non-vacuity / fixed point on a concrete statement with grouping, an alias, a join, IN, LIMIT (model, MySQL) *)
Example C01_roundtrip_example :
  let x := S "SELECT (a + b) * c AS x, NOT (p AND q) FROM t1 LEFT JOIN t2 ON t1.k = t2.k WHERE a IN (1, 2) OR -(-a) > 0 LIMIT 5" in
  match parse_text false "statements" D_MYSQL x with
  | Ok (VList [t]) =>
      match print D_MYSQL t with
      | Ok s => parse_text false "statements" D_MYSQL s = Ok (VList [t]) /\
                (match parse_text false "statements" D_MYSQL s with Ok (VList [t2]) => print D_MYSQL t2 = Ok s | _ => False end)
      | Err _ => False
      end
  | _ => False
  end.
Proof. vm_compute. split; reflexivity. Qed.

Print Assumptions C01_operand_bracketing_partial.
Print Assumptions C01_printer_level_documented_partial.
Print Assumptions C01_printer_total_partial.
Print Assumptions C01_print_entry_total_partial.
Print Assumptions C01_roundtrip_example.
