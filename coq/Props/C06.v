(* C06 -- Quoted text is opaque and is carried through verbatim.  Statements only. *)
From Coq Require Import List NArith ZArith Bool String Ascii Lia.
Require Import Base.Common Gen.LexTable Lex.Model Lex.Invariants Lex.ImplFacts Lex.C04Proofs Lex.C06Proofs Cur.Model Tree.Value Gen.Static
               Parse.Prim Parse.Model Parse.Entry Print.Model Stmt.C06Facts.
Import ListNotations.
Open Scope string_scope.
Open Scope list_scope.

(* 1. Opacity in the lexer (base and MyBatis tables, all 8 flag settings): inside a string literal, a back-quoted name, a line
   comment or a block comment, a payload of ANY length made of ANY characters other than the region's special ones (closing
   delimiter and backslash; back-quote; line break; '*') only extends the pending window -- the run over `payload ++ rest`
   continues from the same state with the same token stack, nesting and remaining text as for every other payload. *)
Theorem C06_payload_run : forall mb f s specials, (f < 8)%nat -> In (s, specials) quote_states ->
  forall p m cs, plain_for specials p ->
    run_chars (impl_step (table mb f)) s m (p ++ cs) = run_chars (impl_step (table mb f)) s (feed m p) cs.
Proof. intros mb f s specials Hf Hq. exact (payload_run (table mb f) s specials (opaque_cfg mb f Hf) Hq). Qed.

Theorem C06_payload_opaque : forall mb f s specials, (f < 8)%nat -> In (s, specials) quote_states ->
  forall p1 p2 m cs r, plain_for specials p1 -> plain_for specials p2 ->
    let m1 := feed (mkmem (win m) (p1 ++ r) (over m) (stack m)) p1 in
    let m2 := feed (mkmem (win m) (p2 ++ r) (over m) (stack m)) p2 in
    run_chars (impl_step (table mb f)) s (mkmem (win m) (p1 ++ r) (over m) (stack m)) (p1 ++ cs) = run_chars (impl_step (table mb f)) s m1 cs /\
    run_chars (impl_step (table mb f)) s (mkmem (win m) (p2 ++ r) (over m) (stack m)) (p2 ++ cs) = run_chars (impl_step (table mb f)) s m2 cs /\
    stack m1 = stack m2 /\ rest m1 = rest m2 /\ over m1 = over m2 /\ win m1 = rev p1 ++ win m /\ win m2 = rev p2 ++ win m.
Proof. intros mb f s specials Hf Hq. exact (payload_opaque (table mb f) s specials (opaque_cfg mb f Hf) Hq). Qed.

(* 2. Carriage on the models: the literal node holds the token text byte for byte, a name loses exactly its enclosing
   back-quotes, and every dialect prints a literal exactly as stored *)
Theorem C06_literal_verbatim : forall s m r, parse_literal (Leaf s m :: r) = Ok (VNode "ASTLiteralExpression" [("value", VStr s)], r).
Proof. exact literal_verbatim. Qed.
Theorem C06_print_literal_verbatim : forall d s, print d (VNode "ASTLiteralExpression" [("value", VStr s)]) = Ok s.
Proof. exact print_literal_verbatim. Qed.
Theorem C06_carried_examples : carried_ok = true.
Proof. exact carried. Qed.

(* 3. The end-to-end statement "in every dialect, for every payload" is FALSE of the faithful model (and of the code): the
   text-level pre-passes run before the lexer and rewrite inside quotes.  Witnesses (known findings K-PREPROC-QUOTE,
   K-PREPASS-QUOTE): TAB -> blank, Hive '==' -> '=', DB2 CURRENT DATE -> CURRENT_DATE inside a string literal. *)
Theorem C06_pipeline_refuted : refuted_ok = true.
Proof. exact refuted. Qed.

Print Assumptions C06_payload_run.
Print Assumptions C06_payload_opaque.
Print Assumptions C06_literal_verbatim.
Print Assumptions C06_print_literal_verbatim.
Print Assumptions C06_carried_examples.
Print Assumptions C06_pipeline_refuted.
