(* C18 -- MySQL-to-Hive table conversion preserves the schema.  Statements only.
   Tables: Gen/Static.v (regenerated from common/static.py on every run).  Helpers: Tree/Helpers.v.  Printer: Print/Model.v. *)
From Coq Require Import List NArith ZArith Bool String Ascii Lia.
Require Import Base.Common Gen.LexTable Lex.Model Cur.Model Tree.Value Tree.Canon Tree.Helpers Tree.HelperProofs Gen.Schema Gen.Static
               Parse.Prim Parse.Model Print.Model Stmt.C18Facts.
Import ListNotations.
Open Scope string_scope.
Open Scope list_scope.

(* 1. the shipped type table covers every MySQL type of the parser's own catalogue ... *)
Theorem C18_type_map_total : forall t lim, In (t, lim) mysql_data_type -> exists h, assoc t hashmap_mysql_to_hive = Some h.
Proof. exact type_map_total. Qed.

(* ... and maps into Hive's types only *)
Theorem C18_type_map_range : forall k h, In (k, h) hashmap_mysql_to_hive -> In h hive_types.
Proof. exact type_map_range. Qed.

(* 2. change_type puts the MAPPED type name into every column (or fails with KeyError when the table lacks the type) and,
   with remove_param, drops the parameters; everything else of the column is untouched *)
Theorem C18_change_type_maps : forall hm rp col col' n,
  get "name" (get "column_type" col) = VStr n -> In "column_type" (map fst (match col with VNode _ fs => fs | _ => [] end)) ->
  change_column_type hm rp col = Ok col' ->
  exists n', assoc (upper n) hm = Some n' /\ get "name" (get "column_type" col') = VStr n' /\
             get "params" (get "column_type" col') = (if rp then VNone else get "params" (get "column_type" col)) /\
             forall g, String.eqb g "column_type" = false -> get g col' = get g col.
Proof. exact change_type_maps. Qed.

(* 3. the Hive printer keeps type parameters exactly for the types Hive has them for: for EVERY catalogued MySQL type and
   EVERY mapped Hive type name, printed with parameters (10,2) *)
Theorem C18_hive_params_rule :
  forall n, In n (map fst mysql_data_type ++ map snd hashmap_mysql_to_hive) ->
    print D_HIVE (type_with_params n) = Ok (if mem_str n [S "DECIMAL"; S "VARCHAR"; S "CHAR"] then n ++ S "(10,2)" else n) /\
    print D_MYSQL (type_with_params n) = Ok (n ++ S "(10,2)").
Proof. exact hive_params_rule. Qed.

(* 4. helper edits show up where they should and nowhere else, for every history of helper calls: any field that no
   helper of the history owns is unchanged; the result is a node of the same class and stays free of lists *)
Theorem C18_helpers_frame : forall hs c c' g,
  apply_hops hs c = Ok c' -> forallb (fun h => negb (String.eqb g (hop_field h))) hs = true -> get g c' = get g c.
Proof. exact apply_hops_frame. Qed.
Theorem C18_helpers_same_kind : forall hs c c',
  no_list c = true -> forallb hop_arg_ok hs = true -> apply_hops hs c = Ok c' -> no_list c' = true /\ cls_of c' = cls_of c.
Proof. exact apply_hops_no_list. Qed.

(* non-vacuity: a concrete MySQL table, converted and printed for Hive by the models *)
Example C18_example : example_converts = true.
Proof. vm_compute. reflexivity. Qed.

Print Assumptions C18_type_map_total.
Print Assumptions C18_type_map_range.
Print Assumptions C18_change_type_maps.
Print Assumptions C18_hive_params_rule.
Print Assumptions C18_helpers_frame.
Print Assumptions C18_helpers_same_kind.
Print Assumptions C18_example.
