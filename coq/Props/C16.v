(* C16 -- Column lineage maps each output column to exactly its base-table sources.  Statements only.
   Model: Lin/Model.v (SelectTableLineage, TableLineageStorage, TableLineageAnalyzer, CurrentLevelTableNameAnalyzer,
   CurrentLevelSubQuery) on top of the parser, printer and analyser models. *)
From Coq Require Import List NArith ZArith Bool String Ascii Lia.
Require Import Base.Common Gen.LexTable Lex.Model Cur.Model Tree.Value Tree.Canon Tree.Helpers Gen.Schema Gen.Static Parse.Prim Parse.Model Parse.Entry
               Print.Model Ana.Model Lin.Model Lin.Entry Lin.Proofs.
Import ListNotations.
Open Scope string_scope.
Open Scope list_scope.

(* 1. Base tables: for EVERY parsed CREATE TABLE the lineage of the table lists its columns in declaration order, each flowing
   from exactly itself *)
Theorem C16_base_table_lineage : forall ast,
  Forall (fun p => exists n, snd p = [mksrc (Some (match get "schema_name" (get "table_name" ast) with VStr s => s | _ => [] end))
                                           (str_of (get "table_name" (get "table_name" ast))) (Some n)] /\ sc_name (fst p) = n) (tl_of_create ast).
Proof. exact base_lineage_shape. Qed.

(* 2. On the models, by computation over a three-table catalogue: expressions and aliases, a wildcard over an aliased table in
   a join, a derived table over a WITH table, UNION branches merged position-wise, INSERT paired with the target's schema; and
   the rejections: ambiguous column, unknown column, unknown qualifier, UNION arity mismatch, INSERT arity mismatch (both forms)
   are analysis errors *)
Theorem C16_examples : c16_examples_ok = true.
Proof. exact c16_examples. Qed.

Print Assumptions C16_base_table_lineage.
Print Assumptions C16_examples.
