(* C14 -- Table-usage analysis reports exactly the tables a query reads.  Statements only.
   Model: Ana/Model.v (the reflective fold of analyzer/base.py + AllUsedQuoteTables / AllFromClauseUsedQuoteColumn /
   AllJoinClauseUsedQuoteColumn) over trees in canonical form (fields in dataclasses.fields() order, regenerated schema). *)
From Coq Require Import List NArith ZArith Bool String Ascii Lia.
Require Import Base.Common Gen.LexTable Lex.Model Cur.Model Tree.Value Tree.Canon Gen.Schema Gen.Static Parse.Prim Parse.Model Print.Model Ana.Model Ana.Proofs.
Import ListNotations.
Open Scope string_scope.
Open Scope list_scope.

(* 1. For EVERY tree (any depth, any nesting of sub-queries in FROM, predicates, the select list, WITH): the all-levels analysis
   never fails and returns exactly the table-name nodes of the tree in pre-order -- fields in order, tuple elements in order --
   with schema and name taken from the node's own two fields ... *)
Theorem C14_all_tables_is_preorder : forall v, all_tables v = Ok (preorder_tables v).
Proof. exact all_tables_is_preorder. Qed.

(* ... once per occurrence and nothing else: as many entries as there are table-name nodes ... *)
Theorem C14_once_per_occurrence : forall v, List.length (preorder_tables v) = count_tables v.
Proof. exact tables_once_per_occurrence. Qed.

(* ... and "fields in order" IS textual order: in the schema regenerated from core/node.py the fields of every class on the way
   from a statement to a table name are declared in the order in which the clauses are written *)
Theorem C14_field_order_is_textual_order : forallb order_ok textual_order = true.
Proof. exact schema_order_textual. Qed.

(* 2. The FROM-only and JOIN-only variants report, for each top-level SELECT branch in order, the tables reachable through that
   branch's from_clause / join_clauses (by definition of the model, which the WALK correspondence ties to the code) *)
Theorem C14_from_variant : forall q, cls_of q = "ASTSingleSelectStatement" -> from_tables q = Ok (preorder_tables (get "from_clause" q)).
Proof. intros q H. unfold from_tables, per_branch. rewrite H. cbn [String.eqb Ascii.eqb Bool.eqb]. apply all_tables_is_preorder. Qed.
Theorem C14_join_variant : forall q, cls_of q = "ASTSingleSelectStatement" -> join_tables q = Ok (preorder_tables (get "join_clauses" q)).
Proof. intros q H. unfold join_tables, per_branch. rewrite H. cbn [String.eqb Ascii.eqb Bool.eqb]. apply all_tables_is_preorder. Qed.

(* non-vacuity: a nested query on the models: sub-query in FROM, in a predicate, in the select list, a join, WITH *)
Example C14_example : c14_example_ok = true.
Proof. vm_compute. reflexivity. Qed.

Print Assumptions C14_all_tables_is_preorder.
Print Assumptions C14_once_per_occurrence.
Print Assumptions C14_field_order_is_textual_order.
Print Assumptions C14_from_variant.
Print Assumptions C14_join_variant.
Print Assumptions C14_example.
