(* C17 -- Schema lookups are minimal, consistently keyed and cache-transparent.  Statements only.
   Models: Lin/Model.v (which keys the analyser asks for) and Cache/Model.v (CreateTableStatementGetter as a state machine over
   a shared directory; the provider is a parameter). *)
From Coq Require Import List NArith ZArith Bool String Ascii Lia.
Require Import Base.Common Gen.LexTable Lex.Model Cur.Model Tree.Value Gen.Static Parse.Prim Parse.Model Ana.Model Lin.Model Lin.Entry Lin.Proofs
               Cache.Model Cache.Proofs.
Import ListNotations.
Open Scope string_scope.
Open Scope list_scope.

(* 1. Minimal and canonical: in EVERY state of the analysis a table lookup asks the provider at most once, only when the name is
   neither a derived table nor a WITH table of the storage nor already in the memory cache, and then under the single spelling
   StandardTable.source() (schema.table, or table) *)
Theorem C17_lookup_minimal : forall provider t st tl st', get_table_lineage provider t st = Ok (tl, st') ->
  st_asked st' = st_asked st \/
  (st_asked st' = st_asked st ++ [table_source t] /\ dlookup (snd t) (st_sub st) = None /\ dlookup (snd t) (st_with st) = None
   /\ dlookup (table_source t) (st_mem st) = None).
Proof. exact lookup_minimal. Qed.

(* 2. Cache transparency: for EVERY history of instance creations (with or without a cache directory, i.e. this or a later
   process) and lookups of names the directory listing maps back to themselves (`nice`: the file name <name>.sql gives <name> again
   under str.replace(".sql", "")), starting from any consistent directory: every lookup that answers, answers with exactly the
   provider's text -- whether it came from memory, from disk or from the provider; and the directory stays consistent *)
Theorem C17_cache_transparent : forall provider ops w, consistent provider nice w -> forallb (op_nice nice) ops = true ->
  consistent provider nice (fst (crun provider w ops)) /\
  Forall2 (fun o r => forall i n sql, o = CGet i n -> r = RSql sql -> provider n = Some sql) ops (snd (crun provider w ops)).
Proof. intros provider. exact (cache_transparent provider nice nice_roundtrip nice_inj). Qed.
Theorem C17_empty_directory_consistent : forall provider, consistent provider nice empty_world.
Proof. intros. apply empty_consistent. Qed.

(* 3. The two places where the unrestricted statement is FALSE of the faithful model (known findings K-CACHE-NAME, K-CACHE-CRASH):
   a table name containing ".sql" is listed under another name by the next instance, which then fails to open the file; a save that
   is cut short leaves a truncated file that the next instance serves *)
Theorem C17_refuted : cache_refuted_name && cache_refuted_crash = true.
Proof. exact cache_refuted. Qed.

(* non-vacuity: three instances sharing one directory; the provider is asked once per directory-backed table *)
Example C17_example : cache_example = true.
Proof. exact cache_example_ok. Qed.

Print Assumptions C17_lookup_minimal.
Print Assumptions C17_cache_transparent.
Print Assumptions C17_empty_directory_consistent.
Print Assumptions C17_refuted.
Print Assumptions C17_example.
