(* C11 -- Trees are immutable, hashable values with structural equality.  Statements only.
   Python object semantics are MODELLED (Tree/Eq.v: dataclass == / hash, tuple vs list, bool-is-int); the facts about
   CPython this relies on are part of the trusted base and are exercised on real objects by the correspondence run. *)
From Coq Require Import List NArith ZArith Bool String Ascii Lia.
Require Import Base.Common Gen.LexTable Lex.Model Cur.Model Tree.Value Tree.Helpers Tree.HelperProofs Tree.Eq Gen.Schema Gen.Static Tree.C11Facts
               Parse.Prim Parse.Model Parse.Sweep.
Import ListNotations.
Open Scope string_scope.

(* 1. every dataclass of core/node.py, analyzer/node.py and the plug-in is declared frozen (attribute assignment raises),
   eq (structural ==, hence __hash__ from the fields) and slots (no instance __dict__ to smuggle state into), and none writes its
   own __eq__ / __hash__ / __setattr__ / __init__ ... by hand (a hand-written __eq__ survives @dataclass while __hash__ stays field-based);
   regenerated from the source on every run *)
Theorem C11_all_frozen : forall ci, In ci schema -> c_frozen ci = true /\ c_eq ci = true /\ c_slots ci = true /\ c_overrides ci = [].
Proof. exact all_frozen. Qed.

(* 2. every default value and class-level node of the schema is itself free of lists *)
(* every field of every class takes part in the generated == and hash (no compare=False, no hash override), regenerated on every run *)
Theorem C11_every_field_compared : odd_fields = [].
Proof. reflexivity. Qed.

Theorem C11_defaults_immutable : forall ci f d, In ci schema -> In f (c_fields ci) -> f_default f = Some d -> no_list d = true.
Proof. exact defaults_immutable. Qed.

(* 3. == is structural (up to Python's bool-is-int), an equivalence, and equal hashable values hash equal;
   a value is hashable iff it contains no list at any depth *)
Theorem C11_eq_structural : forall a b, py_eq a b = true <-> norm a = norm b.
Proof. exact py_eq_spec. Qed.
Theorem C11_eq_equivalence : (forall a, py_eq a a = true) /\ (forall a b, py_eq a b = py_eq b a) /\
                             (forall a b c, py_eq a b = true -> py_eq b c = true -> py_eq a c = true).
Proof. exact (conj py_eq_refl (conj py_eq_sym py_eq_trans)). Qed.
Theorem C11_equal_hash_equal : forall a b, py_eq a b = true -> no_list a = true -> no_list b = true -> py_hash a = py_hash b /\ py_hash a <> None.
Proof. exact eq_hash. Qed.
Theorem C11_hashable_iff_no_list : forall v, (exists h, py_hash v = Some h) <-> no_list v = true.
Proof. exact hashable_iff. Qed.

(* 4. the copy-and-modify helpers, for EVERY history of calls: the result is a node of the same class and stays hashable;
   the receiver is untouched by construction of the model only as long as no list is involved (a tuple `+=` rebinds, a
   list `+=` would mutate the shared list) -- which is exactly what no_list guarantees along the whole history *)
Theorem C11_helpers_keep_kind_and_hashability : forall hs c c',
  no_list c = true -> forallb hop_arg_ok hs = true -> apply_hops hs c = Ok c' -> no_list c' = true /\ cls_of c' = cls_of c.
Proof. exact apply_hops_no_list. Qed.

(* 5. EVERY tree the parser model returns -- any parse function, dialect, token list and fuel -- is free of lists at every depth
   (hence immutable and hashable by 3.), and so is every statement of a parsed script *)
Theorem C11_parser_builds_no_list : forall fuel f d ts v rest, run fuel f d None ts = Ok (v, rest) -> no_list v = true.
Proof. intros fuel f d ts v rest H. pose proof (RP_run fuel f d None ts I) as R. rewrite H in R. exact (proj1 R). Qed.
Theorem C11_script_builds_no_list : forall n fuel d ts vs, statements_loop n fuel d ts [] = Ok vs -> Forall (fun v => no_list v = true) vs.
Proof. intros n fuel d ts vs H. pose proof (RP_statements_loop n fuel d ts [] (Forall_nil _)) as R. rewrite H in R. exact R. Qed.

(* non-vacuity *)
Example C11_example :
  let t := VNode "ASTLimitClause" [("limit", VInt 10); ("offset", VNone)] in
  py_eq t t = true /\ py_hash t <> None /\ py_eq t (VNode "ASTLimitClause" [("limit", VInt 10); ("offset", VInt 0)]) = false
  /\ py_hash (VNode "X" [("columns", VList [])]) = None.
Proof. vm_compute. repeat split; discriminate. Qed.

Print Assumptions C11_all_frozen.
Print Assumptions C11_every_field_compared.
Print Assumptions C11_defaults_immutable.
Print Assumptions C11_eq_structural.
Print Assumptions C11_eq_equivalence.
Print Assumptions C11_equal_hash_equal.
Print Assumptions C11_hashable_iff_no_list.
Print Assumptions C11_helpers_keep_kind_and_hashability.
Print Assumptions C11_parser_builds_no_list.
Print Assumptions C11_script_builds_no_list.
Print Assumptions C11_example.
