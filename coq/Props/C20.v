(* C20 -- The extension surface behaves as documented for plug-ins.  Statements only.
   Cursor half: laws of the TokenScanner model (Cur/Model.v) for all token lists, positions and call histories.
   Lexer half : the MyBatis plug-in lexer over the regenerated plug-in tables. *)
From Coq Require Import List NArith Bool Arith Lia.
Require Import Base.Common Gen.LexTable Lex.Model Lex.Invariants Lex.ImplFacts Lex.C04Proofs Lex.Spec Lex.Product
               Lex.C05Defs Lex.C05Proofs Lex.C20Defs Lex.C20Proofs Cur.Model Cur.Proofs.
Import ListNotations.
Open Scope N_scope.

(* ---- cursor ---- *)
Theorem C20_peek_pure : forall c o, is_peek o = true -> fst (step c o) = c.
Proof. exact peek_pure. Qed.

Theorem C20_search_and_move_exact : forall c o n, sm_len o = Some n ->
  exists b, snd (step c o) = COk (CVBool b) /\ pos (fst (step c o)) = (if b then pos c + n else pos c)%nat.
Proof. exact search_and_move_exact. Qed.

Theorem C20_search_and_move_agrees_with_search : forall c o o', twin o = Some o' -> snd (step c o) = snd (step c o').
Proof. exact search_and_move_agrees. Qed.

Theorem C20_match_exact : forall c ps,
  (search c ps = true /\ step c (OMatch ps) = (moved c (length ps), COk CVUnit)) \/
  (search c ps = false /\ step c (OMatch ps) = (c, CErr ParseErr)).
Proof. exact match_exact. Qed.

Theorem C20_close_reports : forall c, snd (step c OClose) = CErr ParseErr <-> (pos c < len c)%nat.
Proof. exact close_reports. Qed.

Theorem C20_error_leaves_cursor : forall c o e, snd (step c o) = CErr e -> fst (step c o) = c /\ e = ParseErr.
Proof. exact error_leaves_cursor. Qed.

Theorem C20_history_monotone : forall ops c, sorted_from (pos c) (map fst (fst (run_ops c ops))).
Proof. exact history_monotone. Qed.

Theorem C20_peeks_erasable : forall ops c,
  snd (run_ops c ops) = snd (run_ops c (filter (fun o => negb (is_peek o)) ops)).
Proof. exact peeks_erasable. Qed.

Theorem C20_stays_in_range : forall c o, (pos c <= len c)%nat -> (forall k, o <> OMove k) -> (pos (fst (step c o)) <= len c)%nat.
Proof. exact stays_in_range. Qed.

(* ---- plug-in lexer ---- *)
(* conservative extension: for every text without the two-character sequence #{ , under each flag setting, the
   plug-in lexer returns exactly what the base lexer returns (tokens, ghost skips, acceptance) *)
Theorem C20_plugin_conservative : forall f s, (f < 8)%nat ->
  has_ph_open false s = false -> lex_full true f s = lex_full false f s.
Proof. intros f s Hf H. exact (plugin_conservative f s Hf (preproc_no_ph s H)). Qed.

(* placeholders: the plug-in equals the MyBatis variant of the specification lexer -- in which #{ ... } is ONE token
   with marks NAME|CUSTOM_1 whose text is the placeholder, recognised wherever a token can start, and is plain payload
   inside strings, names and comments -- outside the same three known-finding families as the base lexer *)
Theorem C20_placeholder_atomic : forall f s, (f < 8)%nat ->
  avoids_devs_mb f (preproc s) = true -> lex_full true f s = spec_lex_full true f s.
Proof. exact plugin_is_spec_outside_devs. Qed.

Example C20_example_placeholder :
  lex true 7 [97;61;35;123;120;46;121;125;32;39;35;123;122;125;39]     (* a=#{x.y} '#{z}' *)
  = Ok [Leaf [97] 2; Leaf [61] 0; Leaf [35;123;120;46;121;125] 4194306; Leaf [39;35;123;122;125;39] 10].
Proof. vm_compute. reflexivity. Qed.

Example C20_example_cursor :
  let c := mkcur [Leaf [97] 2; Leaf [44] 0; Group KPar [Leaf [49] 72]] 0 in
  map fst (fst (run_ops c [OSearch [PStr [65]]; OMatch [PStr [66]]; OSearchMove [PStr [65]; PStr [44]]; OPopChildren; OClose]))
  = [0; 0; 2; 3; 3]%nat.
Proof. vm_compute. reflexivity. Qed.

Print Assumptions C20_peek_pure.
Print Assumptions C20_search_and_move_exact.
Print Assumptions C20_search_and_move_agrees_with_search.
Print Assumptions C20_match_exact.
Print Assumptions C20_close_reports.
Print Assumptions C20_error_leaves_cursor.
Print Assumptions C20_history_monotone.
Print Assumptions C20_peeks_erasable.
Print Assumptions C20_stays_in_range.
Print Assumptions C20_plugin_conservative.
Print Assumptions C20_placeholder_atomic.
Print Assumptions C20_example_placeholder.
Print Assumptions C20_example_cursor.
