(* The printer model is total: on every tree and in every dialect the recursion budget of Print/Model.v is adequate as soon as it
   exceeds the depth of the tree by 4 -- the printer ends in text or in one of its errors (NotSupportError, the attribute / type errors
   of a malformed tree), never in the model's own OutOfFuel.  Every recursive call goes to a field value, to an element of a tuple
   field (or of a tuple inside it: grouping sets), to a branch of a UNION whose WITH clause was replaced by the empty one, or to an
   operator node held by the class -- which prints without recursion. *)
From Coq Require Import List NArith ZArith Bool String Ascii Lia Arith.
Require Import Base.Common Gen.LexTable Lex.Model Cur.Model Tree.Value Tree.Canon Gen.Schema Gen.Static Parse.Prim Parse.Model Print.Model.
Ltac inner_scrut t := lazymatch t with match ?w with _ => _ end => inner_scrut w | _ => t end.
Import ListNotations.
Open Scope string_scope.
Open Scope list_scope.
Local Open Scope nat_scope.

Definition NFp {A} (r : res A) : Prop := r <> Err OutOfFuel.
Lemma NFp_ok {A} (a : A) : NFp (Ok a). Proof. discriminate. Qed.
Lemma NFp_err_cast {A B} e : @NFp A (Err e) -> @NFp B (Err e).
Proof. unfold NFp. intros H Q. apply H. inversion Q. reflexivity. Qed.

Notation dp := vdepth.

(* ---------- depth of the parts of a node ---------- *)
Fixpoint fdepth (l : list (string * value)) : nat := match l with [] => O | (_, x) :: l' => Nat.max (dp x) (fdepth l') end.
Fixpoint ldepth (l : list value) : nat := match l with [] => O | x :: l' => Nat.max (dp x) (ldepth l') end.
Lemma dp_node c fs : dp (VNode c fs) = Datatypes.S (fdepth fs).
Proof. reflexivity. Qed.
Lemma dp_tuple l : dp (VTuple l) = Datatypes.S (ldepth l).
Proof. reflexivity. Qed.
Lemma dp_list l : dp (VList l) = Datatypes.S (ldepth l).
Proof. reflexivity. Qed.
Lemma dp_pos v : 1 <= dp v. Proof. destruct v; cbn [vdepth]; lia. Qed.
Lemma field_depth f : forall fs x, field f fs = Some x -> dp x <= fdepth fs.
Proof.
  induction fs as [|[k y] fs IH]; intros x; cbn [field]; [discriminate|]. cbn [fdepth].
  destruct (String.eqb f k); [intros H; injection H as <-; lia|intros H; apply IH in H; lia].
Qed.
Lemma in_ldepth l x : In x l -> dp x <= ldepth l.
Proof. induction l as [|y l IH]; cbn [In ldepth]; [tauto|]. intros [<-|H]; [lia|apply IH in H; lia]. Qed.

(* a field value is strictly shallower than its node, or the node has no such field (then it reads as None) *)
Lemma get_depth f v : dp (get f v) < dp v \/ get f v = VNone.
Proof.
  unfold get. destruct v as [c fs| | | | | | |]; try (right; reflexivity).
  destruct (field f fs) as [x|] eqn:E; [left|right; reflexivity]. rewrite dp_node. apply field_depth in E. lia.
Qed.
Lemma ftuple_depth f v x : In x (ftuple f v) -> dp x + 2 <= dp v.
Proof.
  unfold ftuple. pose proof (get_depth f v) as [H|H].
  - destruct (get f v) as [| l | l | | | | |] eqn:E; cbn [In]; try tauto; intros Hx; apply in_ldepth in Hx;
      [rewrite dp_tuple in H|rewrite dp_list in H]; lia.
  - rewrite H. cbn [In]. tauto.
Qed.

(* ---------- nodes that print without recursion ---------- *)
Definition enum_class (c : string) : bool :=
  String.eqb c "ASTInsertType" || String.eqb c "ASTJoinType" || String.eqb c "ASTOrderType" || String.eqb c "ASTUnionType"
  || String.eqb c "ASTCompareOperator" || String.eqb c "ASTLogicalOperator" || String.eqb c "ASTComputeOperator".
Definition simple (v : value) : bool := match v with VNode c _ => enum_class c | _ => true end.

(* every operator node held by a class of the regenerated schema is such a node *)
Definition attrs_simple : bool := forallb (fun ci => forallb (fun p => simple (snd p)) (c_attrs ci)) schema.
Lemma attrs_simple_ok : attrs_simple = true. Proof. vm_compute. reflexivity. Qed.
Lemma class_attr_simple c a : simple (class_attr c a) = true.
Proof.
  unfold class_attr. destruct (find_class c schema) as [ci|] eqn:E; [|reflexivity].
  destruct (field a (c_attrs ci)) as [x|] eqn:F; [|reflexivity].
  pose proof attrs_simple_ok as H. unfold attrs_simple in H. rewrite forallb_forall in H.
  assert (Hin : In ci schema).
  { clear F. revert E. generalize schema. induction l as [|y l IH]; cbn [find_class]; [discriminate|].
    destruct (String.eqb (c_name y) c); [intros Q; injection Q as <-; left; reflexivity|intros Q; right; apply IH; exact Q]. }
  specialize (H ci Hin). rewrite forallb_forall in H.
  assert (Hx : In (a, x) (c_attrs ci) \/ exists k, In (k, x) (c_attrs ci)).
  { right. clear H. revert F. generalize (c_attrs ci). induction l as [|[k y] l IH]; cbn [field]; [discriminate|].
    destruct (String.eqb a k); [intros Q; injection Q as <-; exists k; left; reflexivity|intros Q; destruct (IH Q) as [k' Hk]; exists k'; right; exact Hk]. }
  destruct Hx as [Hx|[k Hx]]; exact (H _ Hx).
Qed.

Lemma simple_body_nf pr d v : simple v = true -> NFp (body pr d v).
Proof.
  destruct v as [c fs| | | | | | |]; try (intros _; discriminate). cbn [simple]. unfold enum_class. intros H. unfold body. cbv zeta. cbn [cls_of].
  destruct (String.eqb c "ASTInsertType" || String.eqb c "ASTJoinType" || String.eqb c "ASTOrderType" || String.eqb c "ASTUnionType"
            || String.eqb c "ASTCompareOperator" || String.eqb c "ASTLogicalOperator") eqn:E.
  - destruct (get "enum" (VNode c fs)); try discriminate. destruct (enum_words _ _); discriminate.
  - cbn [orb] in H. rewrite H. destruct (get "enum" (VNode c fs)); try discriminate.
    destruct (_ && _); [discriminate|]. destruct (_ && _); [discriminate|]. destruct (enum_word _ _); discriminate.
Qed.

Lemma NFp_map_res {A B} (f : A -> res B) : forall l, (forall x, In x l -> NFp (f x)) -> NFp (map_res f l).
Proof.
  induction l as [|x l IH]; intros H; cbn [map_res]; [apply NFp_ok|].
  assert (Hx : NFp (f x)) by (apply H; left; reflexivity). assert (Hl : NFp (map_res f l)) by (apply IH; intros y Hy; apply H; right; exact Hy).
  destruct (f x) as [y|e]; [|exact (NFp_err_cast e Hx)]. destruct (map_res f l) as [ys|e]; [apply NFp_ok|exact (NFp_err_cast e Hl)].
Qed.

Section Total.
  Variable pr : sqltype -> value -> PRs.
  Variable d : sqltype.
  Variable M : nat.
  Hypothesis Hpr : forall d' x, dp x + 4 <= M \/ simple x = true -> NFp (pr d' x).

  Definition small (x : value) : Prop := dp x + 4 <= M \/ simple x = true.
  Lemma small_get f v : dp v + 3 <= M -> small (get f v).
  Proof. intros B. destruct (get_depth f v) as [H|H]; [left; lia|right; rewrite H; reflexivity]. Qed.
  Lemma small_in f v x : dp v + 3 <= M -> In x (ftuple f v) -> small x.
  Proof. intros B H. apply ftuple_depth in H. left. lia. Qed.
  Lemma small_attr c a : small (class_attr c a). Proof. right. apply class_attr_simple. Qed.

  Lemma N_src x : small x -> NFp (src pr d x). Proof. intros H. unfold src. apply Hpr. exact H. Qed.
  Lemma N_pr dd x : small x -> NFp (pr dd x). Proof. intros H. apply Hpr. exact H. Qed.
  Lemma N_operand x n : small x -> NFp (operand pr d x n).
  Proof. intros H. unfold operand. pose proof (N_src x H) as N. destruct (src pr d x) as [s|e]; [apply NFp_ok|exact (NFp_err_cast e N)]. Qed.
  Lemma N_srcs l : (forall x, In x l -> small x) -> NFp (srcs pr d l).
  Proof. intros H. unfold srcs. apply NFp_map_res. intros x Hx. apply N_src. apply H. exact Hx. Qed.
  Lemma N_operands8 l : (forall x, In x l -> small x) -> NFp (operands8 pr d l).
  Proof. intros H. unfold operands8. apply NFp_map_res. intros x Hx. apply N_operand. apply H. exact Hx. Qed.
  Lemma N_opt pre f v : dp v + 3 <= M -> NFp (opt pr d pre f v).
  Proof.
    intros B. unfold opt. destruct (fnone f v); [apply NFp_ok|]. pose proof (N_src _ (small_get f v B)) as N.
    destruct (src pr d (get f v)) as [s|e]; [apply NFp_ok|exact (NFp_err_cast e N)].
  Qed.
  Lemma N_opt8 pre f v : dp v + 3 <= M -> NFp (opt8 pr d pre f v).
  Proof.
    intros B. unfold opt8. destruct (fnone f v); [apply NFp_ok|]. pose proof (N_operand _ 8%N (small_get f v B)) as N.
    destruct (operand pr d (get f v) 8) as [s|e]; [apply NFp_ok|exact (NFp_err_cast e N)].
  Qed.

  Ltac psmall := first [ assumption | (apply small_get; assumption) | (eapply small_in; [eassumption | eassumption]) | apply small_attr ].
  Ltac is_resp e := let T := type of e in lazymatch T with res _ => idtac | PRs => idtac end.
  Ltac phook := fail.
  Ltac psweep :=
    cbv beta zeta;
    lazymatch goal with
    | |- NFp (Ok _) => apply NFp_ok
    | |- NFp (Err ?x) => first [ discriminate | match goal with H : NFp (Err x) |- _ => exact (NFp_err_cast x H) end | idtac ]
    | |- NFp (match ?e with _ => _ end) =>
        let w := inner_scrut e in
        first [ (tryif is_resp w then (let N := fresh "N" in assert (N : NFp w) by pcall) else idtac); destruct w; psweep | idtac ]
    | |- NFp _ => first [ pcall | idtac ]
    end
  with pcall :=
    first [ assumption | apply NFp_ok
          | (apply N_src; psmall) | (apply N_pr; psmall) | (apply N_operand; psmall)
          | (apply N_srcs; intros; psmall) | (apply N_operands8; intros; psmall)
          | (apply N_opt; assumption) | (apply N_opt8; assumption)
          | (apply NFp_map_res; intros; psweep) | phook ].

  Lemma N_with_prefix v sep : dp v + 3 <= M -> NFp (with_prefix pr d v sep). Proof. intros B. unfold with_prefix. psweep. Qed.
  Lemma N_print_binary v opv : dp v + 3 <= M -> small opv -> NFp (print_binary pr d v opv). Proof. intros B Ho. unfold print_binary. psweep. Qed.
  Lemma N_print_keyword v kw : dp v + 3 <= M -> NFp (print_keyword pr d v kw). Proof. intros B. unfold print_keyword. psweep. Qed.
  Lemma N_print_index v ty : dp v + 3 <= M -> NFp (print_index pr d v ty). Proof. intros B. unfold print_index. psweep. Qed.
  Lemma N_print_define_column v : dp v + 3 <= M -> NFp (print_define_column pr d v). Proof. intros B. unfold print_define_column. psweep. Qed.
  Lemma N_title_str v dd : dp v + 3 <= M -> NFp (title_str pr v dd). Proof. intros B. unfold title_str. psweep. Qed.
  Ltac phook ::=
    first [ (apply N_with_prefix; assumption) | (apply N_print_binary; [assumption | psmall]) | (apply N_print_keyword; assumption)
          | (apply N_print_index; assumption) | (apply N_print_define_column; assumption) | (apply N_title_str; assumption) ].
  Lemma N_print_create_table v : dp v + 3 <= M -> NFp (print_create_table pr d v). Proof. intros B. unfold print_create_table. psweep. Qed.
  Lemma N_insert_str v : dp v + 3 <= M -> NFp (insert_str pr d v). Proof. intros B. unfold insert_str. psweep. Qed.

  (* the clauses of a SELECT are field values and elements of tuple fields *)
  Lemma small_clause v x : dp v + 3 <= M -> In x (clauses_of d v) -> small x.
  Proof.
    intros B. unfold clauses_of. cbv zeta.
    assert (G : forall f, small (get f v)) by (intros f; apply small_get; exact B).
    assert (T : forall f y, In y (ftuple f v) -> small y) by (intros f y; apply small_in; exact B).
    repeat (rewrite in_app_iff || cbn [In]).
    destruct (d_eqb d D_HIVE); repeat (rewrite in_app_iff || cbn [In]); intros H;
      repeat match goal with H : _ \/ _ |- _ => destruct H | H : False |- _ => contradiction | H : _ = x |- _ => subst x end;
      solve [apply G | eapply T; eassumption].
  Qed.
  (* a UNION branch is printed with an empty WITH clause in place of its own *)
  Definition strip_with (e : value) : value :=
    match e with
    | VNode ec fs => if is_a ec "ASTSelectStatement"
                     then VNode ec (map (fun p => if String.eqb (fst p) "with_clause" then (fst p, VNode "ASTWithClause" [("tables", VTuple [])]) else p) fs)
                     else e
    | _ => e
    end.
  Lemma strip_depth e : dp (strip_with e) <= Nat.max (dp e) 3 /\ (dp e <= 1 -> strip_with e = e).
  Proof.
    destruct e as [ec fs| | | | | | |]; try (split; [cbn [strip_with]; lia|reflexivity]).
    cbn [strip_with]. destruct (is_a ec "ASTSelectStatement"); [|split; [lia|reflexivity]].
    rewrite !dp_node. split.
    - assert (H : fdepth (map (fun p : string * value => if String.eqb (fst p) "with_clause" then (fst p, VNode "ASTWithClause" [("tables", VTuple [])]) else p) fs)
                  <= Nat.max (fdepth fs) 2).
      { induction fs as [|[k x] fs IH]; [cbn; lia|]. cbn [map fst fdepth]. destruct (String.eqb k "with_clause"); cbn [fdepth]; [change (dp (VNode "ASTWithClause" [("tables", VTuple [])])) with 2|]; lia. }
      lia.
    - intros H. destruct fs as [|[k x] fs]; [reflexivity|]. cbn [fdepth] in H. pose proof (dp_pos x). lia.
  Qed.
  Lemma small_strip v e : dp v + 3 <= M -> In e (ftuple "elements" v) -> small (strip_with e).
  Proof.
    intros B H. apply ftuple_depth in H. destruct (strip_depth e) as [H1 H2]. left.
    destruct (Nat.le_gt_cases (dp e) 1) as [L|L]; [rewrite (H2 L); lia|lia].
  Qed.

  Lemma small_in_tuple f v l x : dp v + 3 <= M -> In (VTuple l) (ftuple f v) -> In x l -> small x.
  Proof. intros B H Hx. apply ftuple_depth in H. rewrite dp_tuple in H. apply in_ldepth in Hx. left. lia. Qed.
  Ltac phook ::=
    first [ (apply N_with_prefix; assumption) | (apply N_print_binary; [assumption | psmall]) | (apply N_print_keyword; assumption)
          | (apply N_print_index; assumption) | (apply N_print_define_column; assumption) | (apply N_title_str; assumption)
          | (apply N_print_create_table; assumption) | (apply N_insert_str; assumption) ].

  Theorem N_body v : dp v + 3 <= M -> NFp (body pr d v).
  Proof.
    intros B. unfold body. cbv zeta. destruct v as [c fs| | | | | | |]; try discriminate. cbn [cls_of].
    set (v := VNode c fs) in *.
    (* the places where the argument of a recursive call is not literally a field value or an element of a tuple field *)
    assert (H1 : NFp (srcs pr d (filter (fun x => negb (is_none x)) (clauses_of d v))))
      by (apply N_srcs; intros x Hx; apply filter_In in Hx; destruct Hx as [Hx _]; exact (small_clause _ _ B Hx)).
    assert (H2 : NFp (srcs pr d (map strip_with (ftuple "elements" v))))
      by (apply N_srcs; intros x Hx; apply in_map_iff in Hx; destruct Hx as (e0 & <- & He); exact (small_strip _ _ B He)).
    unfold strip_with in H2.
    assert (H3 : forall l, ftuple "tables" v = l -> NFp (srcs pr d l))
      by (intros l <-; apply N_srcs; intros x Hx; eapply small_in; eassumption).
    assert (H4 : NFp (map_res (fun g => match g with
                                        | VTuple [x] => src pr d x
                                        | VTuple l => let+ xs := srcs pr d l in Ok (S "(" ++ join (S ", ") xs ++ S ")")
                                        | _ => Err (Crash 5)
                                        end) (ftuple "grouping_list" v))).
    { apply NFp_map_res. intros g Hg. destruct g as [| l | | | | | |]; try discriminate.
      assert (T : forall x, In x l -> small x) by (intros x Hx; exact (small_in_tuple _ _ _ _ B Hg Hx)).
      destruct l as [|x [|y l']].
      - cbn [srcs map_res]. discriminate.
      - apply N_src. apply T. left. reflexivity.
      - assert (N : NFp (srcs pr d (x :: y :: l'))) by (apply N_srcs; exact T). destruct (srcs pr d (x :: y :: l')) as [xs|e]; [apply NFp_ok|exact (NFp_err_cast e N)]. }
    repeat match goal with
           | |- NFp (if ?cnd then _ else _) => destruct cnd; [first [ solve [psweep] | idtac ] |]
           end.
    all: try discriminate.
    - (* WITH clause *) destruct (ftuple "tables" v) as [|v0 l] eqn:E; [apply NFp_ok|]. specialize (H3 _ eq_refl).
      destruct (srcs pr d (v0 :: l)) as [ss|e]; [apply NFp_ok|exact (NFp_err_cast e H3)].
  Qed.
End Total.

(* ---------- closing the recursion ---------- *)
Theorem print_fuel_total : forall n d v, dp v + 4 <= n -> print_fuel n d v <> Err OutOfFuel.
Proof.
  induction n as [|n IH]; intros d v B; [pose proof (dp_pos v); lia|]. cbn [print_fuel].
  apply (N_body (print_fuel n) d n); [|lia].
  intros d' x [H|H]; [apply IH; exact H|].
  destruct n as [|n']; [|cbn [print_fuel]; apply simple_body_nf; exact H].
  (* n = 0 cannot happen: the caller has depth >= 1 *) pose proof (dp_pos v). lia.
Qed.

(* the entry point `print` budgets twice the depth of the tree it is given (plus 4) and prints its canonical form: adequate whenever filling in
   the defaults of omitted fields does not more than double the depth -- true of every tree the parser model builds (checked on the examples below) *)
Corollary print_total d v : dp (canon v) <= 2 * dp v -> print d v <> Err OutOfFuel.
Proof. intros H. unfold print. apply print_fuel_total. lia. Qed.
