(* Facts about the printer model used by C01 / C13. *)
From Coq Require Import List NArith ZArith Bool String Ascii Lia.
Require Import Base.Common Gen.LexTable Lex.Model Cur.Model Tree.Value Tree.Canon Gen.Schema Gen.Static Parse.Prim Parse.Model
               Expr.Spec Expr.Proofs Print.Model.
Import ListNotations.
Open Scope string_scope.
Open Scope N_scope.
Open Scope list_scope.

(* the printer's bracket rule: an operand is bracketed iff it binds looser than allowed at its position *)
Lemma operand_rule pr d v maxl s : pr d v = Ok s ->
  operand pr d v maxl = Ok (if maxl <? expression_level v then S "(" ++ s ++ S ")" else s).
Proof. intros H. unfold operand, src. rewrite H. reflexivity. Qed.

(* the printer's level function (_expression_level, by isinstance over the regenerated class hierarchy) gives every
   embedded specification tree its DOCUMENTED level *)
Lemma printer_level_documented : forall e, expression_level (embed e) = N.of_nat (level e).
Proof.
  destruct e; try (vm_compute; reflexivity).
  - (* SBin *) destruct o; vm_compute; reflexivity.
  - (* SKw *) destruct k; vm_compute; reflexivity.
Qed.

(* dialect refusals of the printer model: the constructs that only some dialects have *)
Lemma mod_refused d l r fuel :
  d_in d mod_dialects = false ->
  print_fuel (Datatypes.S (Datatypes.S (Datatypes.S fuel))) d (embed (SBin B_MOD (SCol None l) (SCol None r))) = Err NotSupport.
Proof. intros H. destruct d; try discriminate; vm_compute; reflexivity. Qed.
