(* Hand-written executable model of the printers: every `source(sql_type)` method of core/node.py, over generic trees.
   Class relationships (isinstance) and class-level attributes come from Gen/Schema.v, enum values from Gen/Static.v. *)
From Coq Require Import List NArith ZArith Bool String Ascii.
Require Import Base.Common Gen.LexTable Lex.Model Cur.Model Tree.Value Tree.Canon Gen.Schema Gen.Static Parse.Prim Parse.Model.
Import ListNotations.
Open Scope string_scope.
Open Scope N_scope.
Open Scope list_scope.

(* ---------- helpers ---------- *)
Definition fstr (f : string) (v : value) : str := match get f v with VStr s => s | _ => [] end.
Definition fbool (f : string) (v : value) : bool := match get f v with VBool b => b | _ => false end.
Definition ftuple (f : string) (v : value) : list value := match get f v with VTuple l => l | VList l => l | _ => [] end.
Definition is_none (v : value) : bool := match v with VNone => true | _ => false end.
Definition fnone (f : string) (v : value) : bool := is_none (get f v).

Fixpoint join (sep : str) (l : list str) : str :=
  match l with [] => [] | [x] => x | x :: l' => x ++ sep ++ join sep l' end.

(* decimal rendering of an integer (Python str(int)) *)
Fixpoint pos_digits (fuel : nat) (p : positive) (acc : str) : str :=
  match fuel with
  | O => acc
  | Datatypes.S f =>
      let '(q, r) := Z.div_eucl (Zpos p) 10 in
      let acc' := (48 + Z.to_N r) :: acc in
      match q with Zpos q' => pos_digits f q' acc' | _ => acc' end
  end.
Definition z_to_str (z : Z) : str :=
  match z with
  | Z0 => [48]
  | Zpos p => pos_digits (Datatypes.S (Pos.to_nat (Pos.size p))) p []
  | Zneg p => 45 :: pos_digits (Datatypes.S (Pos.to_nat (Pos.size p))) p []
  end.

Definition is_a (cls base : string) : bool :=
  String.eqb cls base ||
  match find_class cls schema with Some ci => existsb (String.eqb base) (c_bases ci) | None => false end.
Definition class_attr (cls attr : string) : value :=
  match find_class cls schema with Some ci => match field attr (c_attrs ci) with Some v => v | None => VNone end | None => VNone end.

Fixpoint alookup {B} (k : string) (l : list (string * B)) : option B :=
  match l with [] => None | (k', v) :: l' => if String.eqb k k' then Some v else alookup k l' end.

(* enum.value of list-valued / string-valued enums *)
Definition enum_words (ecls name : string) : option (list str) :=
  let tbl := if String.eqb ecls "EnumInsertType" then enum_insert_type else if String.eqb ecls "EnumJoinType" then enum_join_type
             else if String.eqb ecls "EnumOrderType" then enum_order_type else if String.eqb ecls "EnumUnionType" then enum_union_type
             else if String.eqb ecls "EnumCompareOperator" then enum_compare_operator
             else if String.eqb ecls "EnumLogicalOperator" then enum_logical_operator else [] in
  alookup name tbl.
Definition enum_word (ecls name : string) : option str :=
  let tbl := if String.eqb ecls "EnumCastDataType" then enum_cast_data_type else if String.eqb ecls "EnumWindowRowType" then enum_window_row_type
             else if String.eqb ecls "EnumComputeOperator" then enum_compute_operator else [] in
  alookup name tbl.

Definition mod_dialects : list sqltype := [D_DEFAULT; D_MYSQL; D_SQL_SERVER; D_HIVE].
Definition d_eqb (a b : sqltype) : bool := Nat.eqb (sqltype_idx a) (sqltype_idx b).
Definition d_in (a : sqltype) (l : list sqltype) : bool := existsb (d_eqb a) l.

(* _expression_level *)
Definition compute_level_of (v : value) : N :=
  match get "enum" (get "operator" v) with VEnum _ n => op_level n | _ => 0 end.
Definition expression_level (v : value) : N :=
  let c := cls_of v in
  if is_a c "ASTUnaryExpression" then 2
  else if is_a c "ASTComputeExpression" then compute_level_of v
  else if is_a c "ASTOperatorExpressionBase" || is_a c "ASTBetweenExpression" || is_a c "ASTExistsExpression" then 9
  else if is_a c "ASTOperatorConditionExpression" then 10
  else if is_a c "ASTLogicalNotExpression" then 11
  else if is_a c "ASTLogicalAndExpression" then 12
  else if is_a c "ASTLogicalXorExpression" then 13
  else if is_a c "ASTLogicalOrExpression" then 14
  else 0.

Definition PRs := res str.
Notation "'let+' x ':=' e 'in' k" := (match e with Ok x => k | Err err_ => Err err_ end)
  (at level 200, x pattern, e at level 100, k at level 200, right associativity).

Fixpoint map_res {A B} (f : A -> res B) (l : list A) : res (list B) :=
  match l with [] => Ok [] | x :: l' => let+ y := f x in let+ ys := map_res f l' in Ok (y :: ys) end.

Section Printer.
  Variable pr : sqltype -> value -> PRs.        (* recursive call *)
  Variable d : sqltype.

  Definition src (v : value) : PRs := pr d v.
  Definition srcs (l : list value) : res (list str) := map_res src l.
  Definition operand (v : value) (maxl : N) : PRs :=
    let+ s := src v in Ok (if maxl <? expression_level v then S "(" ++ s ++ S ")" else s).
  Definition opt (pre : str) (f : string) (v : value) : PRs :=
    if fnone f v then Ok [] else let+ s := src (get f v) in Ok (pre ++ s).
  (* compute-level slots: _operand_source(x, sql_type, 8) *)
  Definition operands8 (l : list value) : res (list str) := map_res (fun x => operand x 8) l.
  Definition opt8 (pre : str) (f : string) (v : value) : PRs :=
    if fnone f v then Ok [] else let+ s := operand (get f v) 8 in Ok (pre ++ s).
  Definition opt_s (pre : str) (f : string) (v : value) : str := if fnone f v then [] else pre ++ fstr f v.
  Definition keyword_if (b : bool) (s : string) : str := if b then S s else [].
  Definition bq (s : str) : str := S "`" ++ s ++ S "`".
  Definition with_prefix (v : value) (sep : str) : PRs :=
    match ftuple "tables" (get "with_clause" v) with
    | [] => Ok []
    | _ => let+ w := src (get "with_clause" v) in Ok (w ++ sep)
    end.

  Definition print_binary (v : value) (opv : value) : PRs :=
    let lvl := expression_level v in
    let+ l := operand (get "before_value" v) lvl in
    let+ o := src opv in
    let+ r := operand (get "after_value" v) (lvl - 1) in Ok (l ++ S " " ++ o ++ S " " ++ r).

  Definition print_keyword (v : value) (kw : str) : PRs :=
    let+ l := operand (get "before_value" v) 9 in
    let+ r := operand (get "after_value" v) 8 in Ok (l ++ S " " ++ kw ++ S " " ++ r).

  Definition print_index (v : value) (ty : string) : PRs :=
    let name := opt_s (S " ") "name" v in
    let+ cols := srcs (ftuple "columns" v) in
    let kbs := match get "key_block_size" v with VInt z => S " KEY_BLOCK_SIZE=" ++ z_to_str z | _ => [] end in
    Ok (S ty ++ name ++ S " (" ++ join (S ",") cols ++ S ")" ++ opt_s (S " USING ") "using" v ++ opt_s (S " COMMENT ") "comment" v ++ kbs).

  Definition print_define_column (v : value) : PRs :=
    let my := d_eqb d D_MYSQL in
    let+ ty := src (get "column_type" v) in
    let+ gen := if my then opt (S " ") "generated_always_as" v else Ok [] in
    let+ dflt := if my then opt8 (S " DEFAULT ") "default" v else Ok [] in
    let+ onu := if my then opt8 (S " ON UPDATE ") "on_update" v else Ok [] in
    Ok (bq (fstr "column_name" v) ++ S " " ++ ty
        ++ keyword_if (fbool "is_unsigned" v && my) " UNSIGNED"
        ++ keyword_if (fbool "is_zerofill" v && my) " ZEROFILL"
        ++ (if my then opt_s (S " CHARACTER SET ") "character_set" v else [])
        ++ (if my then opt_s (S " COLLATE ") "collate" v else [])
        ++ gen
        ++ keyword_if (fbool "is_allow_null" v && my) " NULL"
        ++ keyword_if (fbool "is_not_null" v && my) " NOT NULL"
        ++ keyword_if (fbool "is_auto_increment" v && my) " AUTO_INCREMENT"
        ++ dflt ++ onu ++ opt_s (S " COMMENT ") "comment" v).

  Definition title_str (v : value) (dd : sqltype) : PRs :=
    let+ tn := pr dd (get "table_name" v) in
    Ok (S "CREATE TABLE" ++ keyword_if (fbool "if_not_exists" v) " IF NOT EXISTS" ++ S " " ++ tn).

  Definition print_create_table (v : value) : PRs :=
    let ind := S "  " in
    if d_eqb d D_MYSQL then
      let+ title := title_str v D_MYSQL in
      let+ cols := map_res (pr D_MYSQL) (ftuple "columns" v) in
      let+ pk := if fnone "primary_key" v then Ok [] else let+ s := pr D_MYSQL (get "primary_key" v) in Ok [s] in
      let+ uk := map_res (pr D_MYSQL) (ftuple "unique_key" v) in
      let+ k := map_res (pr D_MYSQL) (ftuple "key" v) in
      let+ fk := map_res (pr D_MYSQL) (ftuple "fulltext_key" v) in
      let+ fo := map_res (pr D_MYSQL) (ftuple "foreign_key" v) in
      let items := map (fun s => ind ++ s) (cols ++ pk ++ uk ++ k ++ fk ++ fo) in
      Ok (title ++ S " (" ++ [10] ++ join (S "," ++ [10]) items ++ [10] ++ S ")"
          ++ opt_s (S " ENGINE=") "engine" v
          ++ match get "auto_increment" v with VInt z => S " AUTO_INCREMENT=" ++ z_to_str z | _ => [] end
          ++ opt_s (S " DEFAULT CHARSET=") "default_charset" v ++ opt_s (S " COLLATE=") "collate" v
          ++ opt_s (S " ROW_FORMAT=") "row_format" v ++ opt_s (S " STATS_PERSISTENT=") "states_persistent" v
          ++ opt_s (S " COMMENT=") "comment" v)
    else if d_eqb d D_HIVE then
      let+ title := title_str v D_HIVE in
      let+ cols := map_res (pr D_HIVE) (ftuple "columns" v) in
      let+ parts := map_res (pr D_HIVE) (ftuple "partitioned_by" v) in
      let+ props := map_res (pr D_HIVE) (ftuple "tblproperties" v) in
      Ok (S " " ++ title ++ S "(" ++ [10] ++ join (S "," ++ [10]) (map (fun s => ind ++ s) cols) ++ [10] ++ S ")"
          ++ opt_s (S " COMMENT ") "comment" v
          ++ match parts with [] => [] | _ => S " PARTITIONED BY (" ++ join (S ", ") parts ++ S ")" end
          ++ opt_s (S " ROW FORMAT SERDE ") "row_format_serde" v
          ++ opt_s (S " ROW FORMAT DELIMITED FIELDS TERMINATED BY ") "row_format_delimited_fields_terminated_by" v
          ++ opt_s (S " STORED AS INPUTFORMAT ") "stored_as_inputformat" v
          ++ keyword_if (fbool "stored_as_textfile" v) " STORED AS TEXTFILE"
          ++ opt_s (S " OUTPUTFORMAT ") "outputformat" v ++ opt_s (S " LOCATION ") "location" v
          ++ match props with [] => [] | _ => S " TBLPROPERTIES (" ++ join (S ", ") props ++ S ")" end)
    else Err ParseErr.

  Definition insert_str (v : value) : PRs :=
    let+ w := with_prefix v [10; 10] in
    let+ it := src (get "insert_type" v) in
    let+ tn := src (get "table_name" v) in
    let+ part := if fnone "partition" v then Ok [] else let+ s := src (get "partition" v) in Ok (s ++ S " ") in
    let+ cols := if fnone "columns" v then Ok [] else let+ cs := srcs (ftuple "columns" v) in Ok (S "(" ++ join (S ", ") cs ++ S ") ") in
    Ok (w ++ it ++ S " " ++ keyword_if (d_eqb d D_HIVE) "TABLE " ++ tn ++ S " " ++ part ++ cols).

  Definition clauses_of (v : value) : list value :=
    let common := [get "from_clause" v] ++ ftuple "lateral_view_clauses" v ++ ftuple "join_clauses" v
                  ++ [get "where_clause" v; get "group_by_clause" v; get "having_clause" v; get "order_by_clause" v] in
    (if d_eqb d D_HIVE then common ++ [get "sort_by_clause" v; get "distribute_by_clause" v; get "cluster_by_clause" v] else common)
    ++ [get "limit_clause" v].

  Definition body (v : value) : PRs :=
    let c := cls_of v in
    match v with
    | VNode _ _ =>
      if String.eqb c "ASTInsertType" || String.eqb c "ASTJoinType" || String.eqb c "ASTOrderType" || String.eqb c "ASTUnionType"
         || String.eqb c "ASTCompareOperator" || String.eqb c "ASTLogicalOperator" then
        match get "enum" v with
        | VEnum ec n => match enum_words ec n with Some ws => Ok (join (S " ") ws) | None => Err (Crash 2) end
        | _ => Err (Crash 2)
        end
      else if String.eqb c "ASTComputeOperator" then
        match get "enum" v with
        | VEnum ec n =>
            if String.eqb n "MOD" && negb (d_in d mod_dialects) then Err NotSupport
            else if String.eqb n "LOGICAL_INVERSION" && d_eqb d D_HIVE then Err NotSupport
            else match enum_word ec n with Some w => Ok w | None => Err (Crash 2) end
        | _ => Err (Crash 2)
        end
      else if String.eqb c "ASTCastDataType" then
        let ty := match get "type" v with VEnum ec n => match enum_word ec n with Some w => w | None => [] end | _ => [] end in
        let params := match get "params" v with
                      | VNone => []
                      | _ => [S "(" ++ join (S ", ") (map (fun p => match p with VInt z => z_to_str z | _ => [] end) (ftuple "params" v)) ++ S ")"]
                      end in
        Ok (join (S " ") ((if fbool "signed" v then [S "SIGNED"] else []) ++ [ty] ++ params))
      else if String.eqb c "ASTTableNameExpression" then
        Ok (if fnone "schema_name" v then bq (fstr "table_name" v) else bq (fstr "schema_name" v ++ S "." ++ fstr "table_name" v))
      else if String.eqb c "ASTFunctionNameExpression" then
        Ok (if fnone "schema_name" v then fstr "function_name" v else bq (fstr "schema_name" v) ++ S "." ++ fstr "function_name" v)
      else if String.eqb c "ASTAlisaExpression" then Ok (S "AS " ++ fstr "name" v)
      else if String.eqb c "ASTMultiAlisaExpression" then
        Ok (S "AS " ++ join (S ", ") (map (fun x => match x with VStr s => s | _ => [] end) (ftuple "names" v)))
      else if String.eqb c "ASTColumnNameExpression" then
        let cn := fstr "column_name" v in
        let special := mem_str cn [S "*"; S "CURRENT_DATE"; S "CURRENT_TIME"; S "CURRENT_TIMESTAMP"] in
        let r0 := if special then (if fnone "table_name" v then cn else bq (fstr "table_name" v) ++ S "." ++ cn)
                  else (if fnone "table_name" v then bq cn else bq (fstr "table_name" v) ++ S "." ++ bq cn) in
        Ok (if d_eqb d D_DB2 then
              replace (S "CURRENT_TIMESTAMP") (S "CURRENT TIMESTAMP")
                (replace (S "CURRENT_TIME") (S "CURRENT TIME") (replace (S "CURRENT_DATE") (S "CURRENT DATE") r0))
            else r0)
      else if String.eqb c "ASTLiteralExpression" then Ok (fstr "value" v)
      else if String.eqb c "ASTWildcardExpression" then Ok (if fnone "table_name" v then S "*" else fstr "table_name" v ++ S ".*")
      else if String.eqb c "ASTNormalFunctionExpression" then
        let+ n := pr D_DEFAULT (get "name" v) in          (* self.name.source() : default dialect *)
        let+ ps := srcs (ftuple "params" v) in Ok (n ++ S "(" ++ join (S ", ") ps ++ S ")")
      else if String.eqb c "ASTAggregationFunction" then
        let+ n := pr D_DEFAULT (get "name" v) in
        let+ ps := srcs (ftuple "params" v) in
        Ok (n ++ S "(" ++ keyword_if (fbool "is_distinct" v) "DISTINCT " ++ join (S ", ") ps ++ S ")")
      else if String.eqb c "ASTCastFunctionExpression" then
        let+ n := pr D_DEFAULT (get "name" v) in
        let+ e := operand (get "column_expression" v) 8 in
        let+ t := src (get "cast_type" v) in Ok (n ++ S "(" ++ e ++ S " AS " ++ t ++ S ")")
      else if String.eqb c "ASTExtractFunctionExpression" then
        let+ n := pr D_DEFAULT (get "name" v) in
        let+ a := operand (get "extract_name" v) 8 in
        let+ b := operand (get "column_expression" v) 8 in Ok (n ++ S "(" ++ a ++ S " FROM " ++ b ++ S ")")
      else if String.eqb c "ASTWindowRowItem" then
        match get "row_type" v with
        | VEnum ec n =>
            if String.eqb n "CURRENT_ROW" then Ok (S "CURRENT ROW") else
            let ty := match enum_word ec n with Some w => w | None => [] end in
            if fbool "is_unbounded" v then Ok (S "UNBOUNDED " ++ ty)
            else Ok (match get "row_num" v with VInt z => z_to_str z | _ => S "None" end ++ S " " ++ ty)
        | _ => Err (Crash 2)
        end
      else if String.eqb c "ASTWindowRow" then
        let+ a := src (get "from_row" v) in let+ b := src (get "to_row" v) in Ok (S "ROWS BETWEEN " ++ a ++ S " AND " ++ b)
      else if String.eqb c "ASTWindowExpression" then
        let+ f := src (get "window_function" v) in
        let+ ps := operands8 (ftuple "partition_by_columns" v) in
        let+ os := srcs (ftuple "order_by_columns" v) in
        let+ rw := if fnone "row_expression" v then Ok [] else let+ s := src (get "row_expression" v) in Ok [s] in
        let parts := (match ps with [] => [] | _ => [S "PARTITION BY " ++ join (S ", ") ps] end)
                     ++ (match os with [] => [] | _ => [S "ORDER BY " ++ join (S ", ") os] end) ++ rw in
        Ok (f ++ S " OVER (" ++ join (S " ") parts ++ S ")")
      else if String.eqb c "ASTCaseConditionItem" || String.eqb c "ASTCaseValueItem" then
        let+ w := src (get "when" v) in let+ t := src (get "then" v) in Ok (S "WHEN " ++ w ++ S " THEN " ++ t)
      else if String.eqb c "ASTCaseConditionExpression" then
        let+ cs := srcs (ftuple "cases" v) in
        let+ e := if fnone "else_value" v then Ok [] else let+ s := src (get "else_value" v) in Ok [S "ELSE " ++ s] in
        Ok (join (S " ") ([S "CASE"] ++ cs ++ e ++ [S "END"]))
      else if String.eqb c "ASTCaseValueExpression" then
        let+ cv := src (get "case_value" v) in
        let+ cs := srcs (ftuple "cases" v) in
        let+ e := if fnone "else_value" v then Ok [] else let+ s := src (get "else_value" v) in Ok [S "    ELSE " ++ s] in
        Ok (join [10] ([S "CASE"; cv] ++ map (fun s => S "    " ++ s) cs ++ e ++ [S "END"]))
      else if String.eqb c "ASTSubQueryExpression" then let+ s := src (get "statement" v) in Ok (S "(" ++ s ++ S ")")
      else if String.eqb c "ASTSubValueExpression" then
        let+ vs := map_res (fun x => operand x 8) (ftuple "values" v) in Ok (S "(" ++ join (S ", ") vs ++ S ")")
      else if String.eqb c "ASTIndexExpression" then
        if negb (d_eqb d D_HIVE) then Err NotSupport else
        let+ a := src (get "array" v) in let+ i := operand (get "idx" v) 8 in Ok (a ++ S "[" ++ i ++ S "]")
      else if String.eqb c "ASTUnaryExpression" then
        let+ o := src (get "operator" v) in
        let+ e := operand (get "expression" v) 2 in
        Ok (o ++ (if is_a (cls_of (get "expression" v)) "ASTUnaryExpression" then S " " else []) ++ e)
      else if String.eqb c "ASTComputeExpression" || String.eqb c "ASTOperatorConditionExpression" then print_binary v (get "operator" v)
      else if String.eqb c "ASTLogicalAndExpression" || String.eqb c "ASTLogicalXorExpression" || String.eqb c "ASTLogicalOrExpression" then
        print_binary v (class_attr c "operator")
      else if String.eqb c "ASTIsExpression" then print_keyword v (if fbool "is_not" v then S "IS NOT" else S "IS")
      else if String.eqb c "ASTInExpression" then print_keyword v (if fbool "is_not" v then S "NOT IN " else S "IN")
      else if String.eqb c "ASTLikeExpression" then print_keyword v (if fbool "is_not" v then S "NOT LIKE" else S "LIKE")
      else if String.eqb c "ASTRlikeExpression" then print_keyword v (if fbool "is_not" v then S "NOT RLIKE" else S "RLIKE")
      else if String.eqb c "ASTRegexpExpression" then print_keyword v (if fbool "is_not" v then S "NOT REGEXP" else S "REGEXP")
      else if String.eqb c "ASTExistsExpression" then let+ s := src (get "value" v) in Ok (S "EXISTS " ++ s)
      else if String.eqb c "ASTBetweenExpression" then
        let+ b := operand (get "before_value" v) 9 in
        let+ lo := operand (get "from_value" v) 8 in
        let+ hi := operand (get "to_value" v) 8 in
        Ok (b ++ S " " ++ keyword_if (fbool "is_not" v) "NOT " ++ S "BETWEEN " ++ lo ++ S " AND " ++ hi)
      else if String.eqb c "ASTLogicalNotExpression" then
        let+ o := src (class_attr c "operator") in
        let+ e := operand (get "expression" v) 11 in Ok (o ++ S " " ++ e)
      else if String.eqb c "ASTFromTable" || String.eqb c "ASTSelectColumn" then
        let f := if String.eqb c "ASTFromTable" then "name" else "value" in
        let+ n := src (get f v) in
        if fnone "alias" v then Ok n else let+ a := src (get "alias" v) in Ok (n ++ S " " ++ a)
      else if String.eqb c "ASTSelectClause" then
        let+ cs := srcs (ftuple "columns" v) in
        Ok (join (S " ") ([S "SELECT"] ++ (if fbool "distinct" v then [S "DISTINCT"] else []) ++ [join (S ", ") cs]))
      else if String.eqb c "ASTFromClause" then let+ ts := srcs (ftuple "tables" v) in Ok (S "FROM " ++ join (S ", ") ts)
      else if String.eqb c "ASTLateralViewClause" then
        let+ f := src (get "function" v) in
        let+ a := src (get "alias" v) in
        Ok (S "LATERAL VIEW " ++ keyword_if (fbool "outer" v) "OUTER " ++ f ++ S " " ++ fstr "view_name" v ++ S " " ++ a)
      else if String.eqb c "ASTJoinOnExpression" then let+ s := src (get "condition" v) in Ok (S "ON " ++ s)
      else if String.eqb c "ASTJoinUsingExpression" then src (get "using_function" v)
      else if String.eqb c "ASTJoinClause" then
        let+ t := src (get "type" v) in
        let+ tb := src (get "table" v) in
        if fnone "rule" v then Ok (t ++ S " " ++ tb) else let+ rl := src (get "rule" v) in Ok (t ++ S " " ++ tb ++ S " " ++ rl)
      else if String.eqb c "ASTWhereClause" then let+ s := src (get "condition" v) in Ok (S "WHERE " ++ s)
      else if String.eqb c "ASTHavingClause" then let+ s := src (get "condition" v) in Ok (S "HAVING " ++ s)
      else if String.eqb c "ASTGroupingSets" then
        let+ gs := map_res (fun g => match g with
                                     | VTuple [x] => src x
                                     | VTuple l => let+ xs := srcs l in Ok (S "(" ++ join (S ", ") xs ++ S ")")
                                     | _ => Err (Crash 5)
                                     end) (ftuple "grouping_list" v) in
        Ok (S "GROUPING SETS (" ++ join (S ", ") gs ++ S ")")
      else if String.eqb c "ASTGroupByClause" then
        let+ cs := operands8 (ftuple "columns" v) in
        let+ gs := opt (S " ") "grouping_sets" v in
        Ok (S "GROUP BY " ++ join (S ", ") cs ++ gs ++ keyword_if (fbool "with_cube" v) " WITH CUBE" ++ keyword_if (fbool "with_rollup" v) " WITH ROLLUP")
      else if String.eqb c "ASTOrderByColumn" then
        let+ col := operand (get "column" v) 8 in
        let+ o := src (get "order" v) in
        let nulls := keyword_if (fbool "nulls_first" v) " NULLS FIRST" ++ keyword_if (fbool "nulls_last" v) " NULLS LAST" in
        Ok (if str_eqb o (S "ASC") then col ++ nulls else col ++ S " DESC" ++ nulls)
      else if String.eqb c "ASTOrderByClause" then let+ cs := srcs (ftuple "columns" v) in Ok (S "ORDER BY " ++ join (S ", ") cs)
      else if String.eqb c "ASTSortByClause" then let+ cs := srcs (ftuple "columns" v) in Ok (S "SORT BY " ++ join (S ", ") cs)
      else if String.eqb c "ASTDistributeByClause" then let+ cs := operands8 (ftuple "columns" v) in Ok (S "DISTRIBUTE BY " ++ join (S ", ") cs)
      else if String.eqb c "ASTClusterByClause" then let+ cs := operands8 (ftuple "columns" v) in Ok (S "CLUSTER BY " ++ join (S ", ") cs)
      else if String.eqb c "ASTLimitClause" then
        let lim := match get "limit" v with VInt z => z_to_str z | _ => S "None" end in
        Ok (match get "offset" v with VInt z => S "LIMIT " ++ z_to_str z ++ S ", " ++ lim | _ => S "LIMIT " ++ lim end)
      else if String.eqb c "ASTWithTable" then let+ s := src (get "statement" v) in Ok (fstr "name" v ++ S " AS (" ++ s ++ S ")")
      else if String.eqb c "ASTWithClause" then
        match ftuple "tables" v with
        | [] => Ok []
        | ts => let+ ss := srcs ts in Ok (S "WITH " ++ join (S ", " ++ [10]) ss)
        end
      else if String.eqb c "ASTSingleSelectStatement" then
        let+ w := with_prefix v [10] in
        let+ sel := src (get "select_clause" v) in
        let+ cls := srcs (filter (fun x => negb (is_none x)) (clauses_of v)) in
        Ok (w ++ join [10] (sel :: cls))
      else if String.eqb c "ASTUnionSelectStatement" then
        let+ w := with_prefix v [10] in
        let strip (e : value) : value :=
          match e with
          | VNode ec fs => if is_a ec "ASTSelectStatement"
                           then VNode ec (map (fun p => if String.eqb (fst p) "with_clause" then (fst p, VNode "ASTWithClause" [("tables", VTuple [])]) else p) fs)
                           else e
          | _ => e
          end in
        let+ es := srcs (map strip (ftuple "elements" v)) in Ok (w ++ join [10] es)
      else if String.eqb c "ASTPartitionExpression" then let+ ps := srcs (ftuple "partitions" v) in Ok (S "PARTITION (" ++ join (S ", ") ps ++ S ")")
      else if String.eqb c "ASTInsertValuesStatement" then
        let+ h := insert_str v in let+ vs := srcs (ftuple "values" v) in Ok (h ++ S "VALUES " ++ join (S ", ") vs)
      else if String.eqb c "ASTInsertSelectStatement" then
        let+ h := insert_str v in let+ q := src (get "select_statement" v) in Ok (h ++ S " " ++ q)
      else if String.eqb c "ASTConfigStringExpression" then Ok (fstr "name" v ++ S "=" ++ fstr "value" v)
      else if String.eqb c "ASTColumnTypeExpression" then
        if fnone "params" v then Ok (fstr "name" v) else
        if d_eqb d D_HIVE && negb (mem_str (upper (fstr "name" v)) [S "DECIMAL"; S "VARCHAR"; S "CHAR"]) then Ok (fstr "name" v) else
        let+ ps := srcs (ftuple "params" v) in Ok (fstr "name" v ++ S "(" ++ join (S ",") ps ++ S ")")
      else if String.eqb c "ASTGeneratedColumn" then
        let+ e := src (get "expression" v) in
        match get "save_mode" v with
        | VEnum _ n => Ok (S "GENERATED ALWAYS AS (" ++ e ++ S ") " ++ S n)
        | _ => Err (Crash 2)                       (* None.name *)
        end
      else if String.eqb c "ASTDefineColumnExpression" then print_define_column v
      else if String.eqb c "ASTIndexColumn" then
        Ok (match get "max_length" v with VInt z => bq (fstr "name" v) ++ S "(" ++ z_to_str z ++ S ")" | _ => bq (fstr "name" v) end)
      else if String.eqb c "ASTPrimaryIndexExpression" then print_index v "PRIMARY KEY"
      else if String.eqb c "ASTUniqueIndexExpression" then print_index v "UNIQUE KEY"
      else if String.eqb c "ASTNormalIndexExpression" then print_index v "KEY"
      else if String.eqb c "ASTFulltextIndexExpression" then print_index v "FULLTEXT KEY"
      else if String.eqb c "ASTForeignKeyExpression" then
        let strs f := join (S ", ") (map (fun x => match x with VStr s => s | _ => [] end) (ftuple f v)) in
        Ok (S "CONSTRAINT " ++ fstr "constraint_name" v ++ S " FOREIGN KEY (" ++ strs "slave_columns" ++ S ") REFERENCES " ++ fstr "master_table_name" v
            ++ S " (" ++ strs "master_columns" ++ S ")" ++ opt_s (S " ON DELETE ") "on_delete" v ++ opt_s (S " ON UPDATE ") "on_update" v)
      else if String.eqb c "ASTCreateTableStatement" then print_create_table v
      else if String.eqb c "ASTCreateTableAsStatement" then
        let+ tn := src (get "table_name" v) in let+ q := src (get "select_statement" v) in Ok (S "CREATE TABLE " ++ tn ++ S " AS " ++ q)
      else if String.eqb c "ASTDropTableStatement" then
        let+ tn := src (get "table_name" v) in Ok (S "DROP TABLE " ++ keyword_if (fbool "if_exists" v) "IF EXISTS " ++ tn)
      else if String.eqb c "ASTSetStatement" then let+ s := src (get "config" v) in Ok (S "SET " ++ s)
      else if String.eqb c "ASTAnalyzeTableStatement" then
        let+ tn := src (get "table_name" v) in
        if d_eqb d D_HIVE then
          let+ part := if fnone "partition" v then Ok [] else let+ s := src (get "partition" v) in Ok (s ++ S " ") in
          Ok (S "ANALYZE TABLE " ++ tn ++ S " " ++ part ++ S " COMPUTE STATISTICS" ++ keyword_if (fbool "for_columns" v) " FOR COLUMNS"
              ++ keyword_if (fbool "cache_metadata" v) " CACHE METADATA" ++ keyword_if (fbool "noscan" v) " NOSCAN")
        else if d_eqb d D_MYSQL then Ok (S "ANALYZE TABLE " ++ tn) else Err NotSupport
      else if String.eqb c "ASTAlterAddPartitionExpression" then
        let+ p := src (get "partition" v) in Ok (S "ADD" ++ keyword_if (fbool "if_not_exists" v) " IF NOT EXISTS" ++ S " " ++ p)
      else if String.eqb c "ASTAlterAddExpression" then let+ e := src (get "expression" v) in Ok (S "ADD " ++ e)
      else if String.eqb c "ASTAlterModifyExpression" then let+ e := src (get "expression" v) in Ok (S "MODIFY " ++ e)
      else if String.eqb c "ASTAlterChangeExpression" then
        let+ e := src (get "to_expression" v) in Ok (S "CHANGE " ++ fstr "from_column_name" v ++ S " " ++ e)
      else if String.eqb c "ASTAlterRenameColumnExpression" then
        Ok (S "RENAME COLUMN " ++ fstr "from_column_name" v ++ S " TO " ++ fstr "to_column_name" v)
      else if String.eqb c "ASTAlterDropColumnExpression" then Ok (S "DROP COLUMN " ++ fstr "column_name" v)
      else if String.eqb c "ASTAlterDropPartitionExpression" then
        let+ p := src (get "partition" v) in Ok (S "DROP" ++ keyword_if (fbool "if_exists" v) " IF EXISTS" ++ S " " ++ p)
      else if String.eqb c "ASTAlterTableStatement" then
        let+ tn := src (get "table_name" v) in
        let+ es := srcs (ftuple "expressions" v) in Ok (S "ALTER TABLE " ++ tn ++ S " " ++ [10] ++ join (S "," ++ [10]) es)
      else if String.eqb c "ASTMsckRepairTableStatement" then let+ tn := src (get "table_name" v) in Ok (S "MSCK REPAIR TABLE " ++ tn)
      else if String.eqb c "ASTUseStatement" then Ok (S "USE " ++ fstr "schema_name" v)
      else if String.eqb c "ASTTruncateTable" then let+ tn := src (get "table_name" v) in Ok (S "TRUNCATE TABLE " ++ tn)
      else if String.eqb c "ASTUpdateSetColumn" then
        let+ e := src (get "column_value" v) in Ok (fstr "column_name" v ++ S " = " ++ e)
      else if String.eqb c "ASTUpdateSetClause" then let+ cs := srcs (ftuple "columns" v) in Ok (S "SET " ++ join (S ", ") cs)
      else if String.eqb c "ASTUpdateStatement" then
        let+ w := with_prefix v [10; 10] in
        let+ tn := src (get "table_name" v) in
        let+ sc := src (get "set_clause" v) in
        let+ wh := opt (S " ") "where_clause" v in
        let+ ob := opt (S " ") "order_by_clause" v in
        let+ lm := opt (S " ") "limit_clause" v in
        Ok (w ++ S "UPDATE " ++ tn ++ S " " ++ sc ++ wh ++ ob ++ lm)
      else if String.eqb c "ASTDeleteStatement" then
        let+ tn := src (get "table_name" v) in
        let+ wh := opt (S " ") "where_clause" v in
        let+ ob := opt (S " ") "order_by_clause" v in
        let+ lm := opt (S " ") "limit_clause" v in
        Ok (S "DELETE FROM " ++ tn ++ S " " ++ wh ++ ob ++ lm)
      else if String.eqb c "ASTShowDatabasesStatement" then Ok (S "SHOW DATABASES")
      else if String.eqb c "ASTShowTablesStatement" then Ok (S "SHOW TABLES")
      else if String.eqb c "ASTShowColumnsStatement" then
        let+ f := src (get "from_clause" v) in let+ wh := opt (S " ") "where_clause" v in Ok (S "SHOW COLUMNS " ++ f ++ wh)
      else if String.eqb c "SQLMyBatisExpression" then Ok (fstr "mybatis_source" v)
      else Err (Crash 7)
    | _ => Err (Crash 2)          (* .source on something that is not a node *)
    end.
End Printer.

Fixpoint print_fuel (fuel : nat) (d : sqltype) (v : value) : PRs :=
  match fuel with
  | O => Err OutOfFuel
  | Datatypes.S n => body (print_fuel n) d v
  end.

Fixpoint vdepth (v : value) : nat :=
  match v with
  | VNode _ fs => Datatypes.S ((fix go (l : list (string * value)) : nat := match l with [] => O | (_, x) :: l' => Nat.max (vdepth x) (go l') end) fs)
  | VTuple l | VList l => Datatypes.S ((fix go (l : list value) : nat := match l with [] => O | x :: l' => Nat.max (vdepth x) (go l') end) l)
  | _ => 1%nat
  end.

Definition print (d : sqltype) (v : value) : PRs := print_fuel (2 * vdepth v + 4) d (canon v).
