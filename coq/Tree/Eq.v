(* Python value semantics of the generic trees: == and hash of frozen dataclasses (eq=True), tuples, lists, str, int, bool,
   None and enum members, as far as the library's trees can observe them.
   - dataclass __eq__ : same class and equal field tuples (fields in declaration order);
   - tuple / list     : same kind and element-wise equal (a tuple never equals a list);
   - bool is an int   : True == 1 and hash(True) == hash(1) -- modelled by `norm`;
   - a list is unhashable; everything else hashes structurally. *)
From Coq Require Import List NArith ZArith Bool String Ascii Lia.
Require Import Base.Common Tree.Value Tree.Helpers.
Import ListNotations.
Open Scope string_scope.

(* bool -> int coercion, the only identification Python's == makes between the atoms used in trees *)
Fixpoint norm (v : value) : value :=
  match v with
  | VNode c fs => VNode c ((fix go (l : list (string * value)) := match l with [] => [] | (k, x) :: l' => (k, norm x) :: go l' end) fs)
  | VTuple l => VTuple ((fix go (l : list value) := match l with [] => [] | x :: l' => norm x :: go l' end) l)
  | VList l => VList ((fix go (l : list value) := match l with [] => [] | x :: l' => norm x :: go l' end) l)
  | VBool b => VInt (if b then 1 else 0)%Z
  | _ => v
  end.

Definition str_eq_dec (a b : str) : {a = b} + {a <> b} := list_eq_dec N.eq_dec a b.

(* structural equality test on normalised values *)
Fixpoint veqb (a b : value) {struct a} : bool :=
  match a, b with
  | VNode c fs, VNode c' fs' =>
      String.eqb c c' &&
      (fix go (l l' : list (string * value)) : bool :=
         match l, l' with
         | [], [] => true
         | (k, x) :: r, (k', x') :: r' => String.eqb k k' && veqb x x' && go r r'
         | _, _ => false
         end) fs fs'
  | VTuple l, VTuple l' =>
      (fix go (l l' : list value) : bool := match l, l' with [] , [] => true | x :: r, x' :: r' => veqb x x' && go r r' | _, _ => false end) l l'
  | VList l, VList l' =>
      (fix go (l l' : list value) : bool := match l, l' with [] , [] => true | x :: r, x' :: r' => veqb x x' && go r r' | _, _ => false end) l l'
  | VNone, VNone => true
  | VStr s, VStr s' => if str_eq_dec s s' then true else false
  | VInt z, VInt z' => Z.eqb z z'
  | VBool x, VBool y => Bool.eqb x y
  | VEnum c n, VEnum c' n' => String.eqb c c' && String.eqb n n'
  | _, _ => false
  end.

(* Python's == on trees *)
Definition py_eq (a b : value) : bool := veqb (norm a) (norm b).

(* induction principle for the nested type *)
Section ValueInd.
  Variable P : value -> Prop.
  Hypothesis Hnode : forall c fs, Forall (fun p => P (snd p)) fs -> P (VNode c fs).
  Hypothesis Htuple : forall l, Forall P l -> P (VTuple l).
  Hypothesis Hlist : forall l, Forall P l -> P (VList l).
  Hypothesis Hnone : P VNone.
  Hypothesis Hstr : forall s, P (VStr s).
  Hypothesis Hint : forall z, P (VInt z).
  Hypothesis Hbool : forall b, P (VBool b).
  Hypothesis Henum : forall c n, P (VEnum c n).
  Fixpoint value_ind' (v : value) : P v :=
    match v with
    | VNode c fs => Hnode c fs ((fix go (l : list (string * value)) : Forall (fun p => P (snd p)) l :=
                                   match l with [] => Forall_nil _ | (k, x) :: l' => Forall_cons (k, x) (value_ind' x) (go l') end) fs)
    | VTuple l => Htuple l ((fix go (l : list value) : Forall P l := match l with [] => Forall_nil _ | x :: l' => Forall_cons x (value_ind' x) (go l') end) l)
    | VList l => Hlist l ((fix go (l : list value) : Forall P l := match l with [] => Forall_nil _ | x :: l' => Forall_cons x (value_ind' x) (go l') end) l)
    | VNone => Hnone
    | VStr s => Hstr s
    | VInt z => Hint z
    | VBool b => Hbool b
    | VEnum c n => Henum c n
    end.
End ValueInd.

Lemma veqb_eq : forall v w, veqb v w = true <-> v = w.
Proof.
  induction v using value_ind'; intros w; destruct w; simpl; try (split; [discriminate|intros E; discriminate E]).
  - (* node *)
    split.
    + intros E. apply andb_true_iff in E as [E1 E2]. apply String.eqb_eq in E1. subst. f_equal.
      revert fields E2. induction fs as [|[k x] fs IH]; intros [|[k' x'] fs'] E2; try discriminate; auto.
      apply andb_true_iff in E2 as [E2 E3]. apply andb_true_iff in E2 as [E2 E4].
      inversion H; subst. apply String.eqb_eq in E2. simpl in H2. apply H2 in E4. subst. f_equal. apply IH; auto.
    + intros E. inversion E; subst. rewrite String.eqb_refl. simpl.
      clear E. induction fields as [|[k x] fs IH]; auto. inversion H; subst. simpl in H2.
      rewrite String.eqb_refl. simpl. rewrite (proj2 (H2 x) eq_refl). simpl. apply IH; auto.
  - (* tuple *)
    split.
    + intros E. f_equal. revert l0 E. induction l as [|x l IH]; intros [|x' l'] E; try discriminate; auto.
      apply andb_true_iff in E as [E1 E2]. inversion H; subst. apply H2 in E1. subst. f_equal. apply IH; auto.
    + intros E. inversion E; subst. clear E. induction l0 as [|x l IH]; auto. inversion H; subst.
      rewrite (proj2 (H2 x) eq_refl). simpl. apply IH; auto.
  - (* list *)
    split.
    + intros E. f_equal. revert l0 E. induction l as [|x l IH]; intros [|x' l'] E; try discriminate; auto.
      apply andb_true_iff in E as [E1 E2]. inversion H; subst. apply H2 in E1. subst. f_equal. apply IH; auto.
    + intros E. inversion E; subst. clear E. induction l0 as [|x l IH]; auto. inversion H; subst.
      rewrite (proj2 (H2 x) eq_refl). simpl. apply IH; auto.
  - split; auto.
  - destruct (str_eq_dec s s0); split; intros E; try discriminate; try congruence.
  - rewrite Z.eqb_eq. split; congruence.
  - match goal with |- Bool.eqb ?x ?y = true <-> _ => destruct x, y end; simpl; split; intros E; try discriminate; try reflexivity; inversion E.
  - rewrite andb_true_iff, !String.eqb_eq. split; [intros [-> ->]; reflexivity|intros E; inversion E; auto].
Qed.

(* Python equality is exactly "same structure up to bool/int" *)
Theorem py_eq_spec a b : py_eq a b = true <-> norm a = norm b.
Proof. apply veqb_eq. Qed.
Theorem py_eq_refl a : py_eq a a = true.
Proof. apply py_eq_spec. reflexivity. Qed.
Theorem py_eq_sym a b : py_eq a b = py_eq b a.
Proof.
  destruct (py_eq a b) eqn:E1, (py_eq b a) eqn:E2; auto.
  - apply py_eq_spec in E1. symmetry in E1. apply py_eq_spec in E1. congruence.
  - apply py_eq_spec in E2. symmetry in E2. apply py_eq_spec in E2. congruence.
Qed.
Theorem py_eq_trans a b c : py_eq a b = true -> py_eq b c = true -> py_eq a c = true.
Proof. rewrite !py_eq_spec. congruence. Qed.

(* hash: Some h for hashable values (a structural function of the normalised value), None = TypeError (contains a list) *)
Definition py_hash (v : value) : option value := if no_list v then Some (norm v) else None.
Theorem eq_hash a b : py_eq a b = true -> no_list a = true -> no_list b = true -> py_hash a = py_hash b /\ py_hash a <> None.
Proof. intros E Ha Hb. apply py_eq_spec in E. unfold py_hash. rewrite Ha, Hb, E. split; [reflexivity|discriminate]. Qed.
Theorem hashable_iff v : (exists h, py_hash v = Some h) <-> no_list v = true.
Proof. unfold py_hash. destruct (no_list v); split; eauto; try discriminate. intros [h H]; discriminate. Qed.

(* no bool/int confusion inside one class: equal nodes built by the SAME constructor calls have the same structure.
   (two values with the same atom kinds at the same places are equal in Python iff they are identical) *)
Fixpoint same_kinds (a b : value) {struct a} : bool :=
  match a, b with
  | VNode c fs, VNode c' fs' =>
      (fix go (l l' : list (string * value)) : bool :=
         match l, l' with [], [] => true | (_, x) :: r, (_, x') :: r' => same_kinds x x' && go r r' | _, _ => true end) fs fs'
  | VTuple l, VTuple l' | VList l, VList l' =>
      (fix go (l l' : list value) : bool := match l, l' with [], [] => true | x :: r, x' :: r' => same_kinds x x' && go r r' | _, _ => true end) l l'
  | VBool _, VInt _ | VInt _, VBool _ => false
  | _, _ => true
  end.
