(* Generic representation of the values the library returns: AST nodes (frozen dataclasses) with named fields,
   tuples / lists (the container kind is kept), None, strings, integers, booleans, enum members. *)
From Coq Require Import List NArith ZArith Bool String Ascii.
Require Import Base.Common.
Import ListNotations.

Inductive value : Type :=
| VNode (cls : string) (fields : list (string * value))
| VTuple (l : list value)
| VList (l : list value)
| VNone
| VStr (s : str)
| VInt (z : Z)
| VBool (b : bool)
| VEnum (cls : string) (name : string).

(* Coq string literal -> code points *)
Fixpoint S (x : string) : str :=
  match x with
  | EmptyString => []
  | String a r => N_of_ascii a :: S r
  end.

Fixpoint field (f : string) (fs : list (string * value)) : option value :=
  match fs with
  | [] => None
  | (g, v) :: fs' => if String.eqb f g then Some v else field f fs'
  end.
Definition get (f : string) (v : value) : value :=
  match v with VNode _ fs => match field f fs with Some x => x | None => VNone end | _ => VNone end.
Definition cls_of (v : value) : string := match v with VNode c _ => c | _ => EmptyString end.
