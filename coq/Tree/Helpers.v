(* Hand-written model of the copy-and-modify helpers of ASTCreateTableStatement (core/node.py: set_table_name,
   change_type, append_column, append_partition_by_column) over generic trees.  get_params_dict() is "all fields in
   order"; the constructor call with **params rebuilds a node of the SAME class from them.  Container kinds are kept:
   `params["columns"] += (column,)` on a tuple rebinds (a new tuple); on a list it would extend the list in place. *)
From Coq Require Import List NArith ZArith Bool String Ascii.
Require Import Base.Common Tree.Value.
Import ListNotations.
Open Scope string_scope.
Open Scope list_scope.

Fixpoint set_assoc (f : string) (x : value) (fs : list (string * value)) : list (string * value) :=
  match fs with
  | [] => []
  | (k, v) :: fs' => if String.eqb k f then (k, x) :: fs' else (k, v) :: set_assoc f x fs'
  end.
Definition set_field (f : string) (x : value) (v : value) : value :=
  match v with VNode c fs => VNode c (set_assoc f x fs) | _ => v end.

Inductive hop : Type :=
| HSetTableName (tn : value)
| HChangeType (hm : list (str * str)) (remove_param : bool)
| HAppendColumn (col : value)
| HAppendPartitionColumn (col : value)
| HSetWithClause (wc : value).      (* ASTSingleSelectStatement / ASTUnionSelectStatement.set_with_clauses *)

(* `x += (column,)` : tuple -> new tuple; list -> list.extend (same kind); anything else -> TypeError *)
Definition append_item (cur : value) (x : value) : res value :=
  match cur with
  | VTuple l => Ok (VTuple (l ++ [x]))
  | VList l => Ok (VList (l ++ [x]))    (* list.__iadd__: stays a list (and, in Python, mutates the list shared with the receiver) *)
  | _ => Err (Crash 5)
  end.

Definition change_column_type (hm : list (str * str)) (rp : bool) (col : value) : res value :=
  let ty := get "column_type" col in
  match get "name" ty with
  | VStr n =>
      match assoc (upper n) hm with
      | Some n' => Ok (set_field "column_type"
                         (VNode "ASTColumnTypeExpression" [("name", VStr n'); ("params", if rp then VNone else get "params" ty)]) col)
      | None => Err (Crash 4)          (* KeyError *)
      end
  | _ => Err (Crash 2)
  end.

Fixpoint map_res {A B} (f : A -> res B) (l : list A) : res (list B) :=
  match l with
  | [] => Ok []
  | x :: l' => match f x with Ok y => match map_res f l' with Ok ys => Ok (y :: ys) | Err e => Err e end | Err e => Err e end
  end.

Definition apply_hop (h : hop) (c : value) : res value :=
  match h with
  | HSetTableName tn => Ok (set_field "table_name" tn c)
  | HChangeType hm rp =>
      match get "columns" c with
      | VTuple cols | VList cols =>
          match map_res (change_column_type hm rp) cols with
          | Ok cols' => Ok (set_field "columns" (VTuple cols') c)
          | Err e => Err e
          end
      | _ => Err (Crash 5)
      end
  | HAppendColumn col =>
      match append_item (get "columns" c) col with Ok x => Ok (set_field "columns" x c) | Err e => Err e end
  | HAppendPartitionColumn col =>
      match append_item (get "partitioned_by" c) col with Ok x => Ok (set_field "partitioned_by" x c) | Err e => Err e end
  | HSetWithClause wc => Ok (set_field "with_clause" wc c)
  end.

Fixpoint apply_hops (hs : list hop) (c : value) : res value :=
  match hs with
  | [] => Ok c
  | h :: hs' => match apply_hop h c with Ok c' => apply_hops hs' c' | Err e => Err e end
  end.

(* ---------- immutability / hashability predicates on values ---------- *)
(* no_list: the value contains no Python list at any depth (tuples, strings, ints, bools, None, enum members and frozen
   dataclass instances holding such values are immutable and hashable; a list is neither) *)
Fixpoint no_list (v : value) : bool :=
  match v with
  | VNode _ fs => (fix go (l : list (string * value)) : bool := match l with [] => true | (_, x) :: l' => no_list x && go l' end) fs
  | VTuple l => (fix go (l : list value) : bool := match l with [] => true | x :: l' => no_list x && go l' end) l
  | VList _ => false
  | _ => true
  end.
