(* Laws of the copy-and-modify helpers (Tree/Helpers.v), for every create-table tree and every helper history. *)
From Coq Require Import List NArith ZArith Bool String Ascii Lia.
Require Import Base.Common Tree.Value Tree.Helpers.
Import ListNotations.
Open Scope string_scope.
Open Scope list_scope.

Definition no_list_fields (fs : list (string * value)) : bool :=
  (fix go (l : list (string * value)) : bool := match l with [] => true | (_, x) :: l' => no_list x && go l' end) fs.
Definition no_list_all (l : list value) : bool :=
  (fix go (l : list value) : bool := match l with [] => true | x :: l' => no_list x && go l' end) l.
Lemma no_list_node c fs : no_list (VNode c fs) = no_list_fields fs. Proof. reflexivity. Qed.
Lemma no_list_tuple l : no_list (VTuple l) = no_list_all l. Proof. reflexivity. Qed.

Lemma no_list_all_forall l : no_list_all l = true <-> Forall (fun x => no_list x = true) l.
Proof.
  induction l as [|x l IH]; simpl; split; intros H; auto.
  - apply andb_true_iff in H as [H1 H2]. constructor; auto. apply IH; auto.
  - inversion H; subst. apply andb_true_iff; split; auto. apply IH; auto.
Qed.
Lemma no_list_all_app l x : no_list_all l = true -> no_list x = true -> no_list_all (l ++ [x]) = true.
Proof. intros H Hx. apply no_list_all_forall. apply Forall_app; split; [apply no_list_all_forall; auto|constructor; auto]. Qed.

Lemma field_no_list f fs x : no_list_fields fs = true -> field f fs = Some x -> no_list x = true.
Proof.
  induction fs as [|[k v] fs IH]; simpl; intros H E; [discriminate|].
  apply andb_true_iff in H as [H1 H2]. destruct (String.eqb f k); [inversion E; subst; auto|apply IH; auto].
Qed.
Lemma get_no_list f v : no_list v = true -> no_list (get f v) = true.
Proof.
  destruct v; simpl; auto. intros H. destruct (field f fields) eqn:E; auto. eapply field_no_list; eauto.
Qed.
Lemma set_assoc_no_list f x fs : no_list_fields fs = true -> no_list x = true -> no_list_fields (set_assoc f x fs) = true.
Proof.
  induction fs as [|[k v] fs IH]; simpl; intros H Hx; auto.
  apply andb_true_iff in H as [H1 H2]. destruct (String.eqb k f); simpl; apply andb_true_iff; split; auto.
Qed.
Lemma set_field_no_list f x v : no_list v = true -> no_list x = true -> no_list (set_field f x v) = true.
Proof. destruct v; simpl; auto. intros H Hx. apply set_assoc_no_list; auto. Qed.

Lemma set_field_cls f x v : cls_of (set_field f x v) = cls_of v.
Proof. destruct v; reflexivity. Qed.

(* frame: a field other than the one written keeps its value; the written one holds the new value when it exists *)
Lemma set_assoc_other f g x fs : String.eqb g f = false -> field g (set_assoc f x fs) = field g fs.
Proof.
  intros Hgf. induction fs as [|[k v] fs IH]; simpl; auto.
  destruct (String.eqb k f) eqn:Ekf; simpl.
  - apply String.eqb_eq in Ekf; subst. rewrite Hgf. reflexivity.
  - destruct (String.eqb g k); auto.
Qed.
Lemma set_field_other f g x v : String.eqb g f = false -> get g (set_field f x v) = get g v.
Proof. intros H. destruct v; simpl; auto. rewrite set_assoc_other; auto. Qed.
Lemma set_assoc_keys f x fs : map fst (set_assoc f x fs) = map fst fs.
Proof. induction fs as [|[k v] fs IH]; simpl; auto. destruct (String.eqb k f); simpl; congruence. Qed.

Definition hop_arg_ok (h : hop) : bool :=
  match h with
  | HSetTableName tn => no_list tn
  | HChangeType _ _ => true
  | HAppendColumn c | HAppendPartitionColumn c => no_list c
  | HSetWithClause wc => no_list wc
  end.
Definition hop_field (h : hop) : string :=
  match h with HSetTableName _ => "table_name" | HChangeType _ _ | HAppendColumn _ => "columns" | HAppendPartitionColumn _ => "partitioned_by"
               | HSetWithClause _ => "with_clause" end.

Lemma change_column_type_no_list hm rp col col' :
  no_list col = true -> change_column_type hm rp col = Ok col' -> no_list col' = true.
Proof.
  unfold change_column_type. intros H E.
  destruct (get "name" (get "column_type" col)) eqn:En; try discriminate.
  destruct (assoc (upper s) hm) eqn:Ea; try discriminate. inversion E; subst.
  apply set_field_no_list; auto. rewrite no_list_node. cbn [no_list_fields no_list].
  destruct rp; cbn [no_list]; auto. rewrite andb_true_r. apply get_no_list. apply get_no_list. exact H.
Qed.
Lemma map_res_no_list hm rp cols cols' :
  no_list_all cols = true -> map_res (change_column_type hm rp) cols = Ok cols' -> no_list_all cols' = true.
Proof.
  revert cols'. induction cols as [|c cols IH]; simpl; intros cols' H E; [inversion E; reflexivity|].
  apply andb_true_iff in H as [H1 H2].
  destruct (change_column_type hm rp c) eqn:Ec; try discriminate.
  destruct (map_res (change_column_type hm rp) cols) eqn:Em; try discriminate. inversion E; subst.
  simpl. apply andb_true_iff; split; [eapply change_column_type_no_list; eauto|apply IH; auto].
Qed.

Lemma append_item_no_list cur x r : no_list cur = true -> no_list x = true -> append_item cur x = Ok r -> no_list r = true.
Proof.
  destruct cur; simpl; try discriminate; intros H Hx E; inversion E; subst.
  rewrite no_list_tuple. apply no_list_all_app; auto.
Qed.

(* one helper call: result holds no list (is hashable), is a node of the same class, with the same field names *)
Lemma apply_hop_no_list h c c' : no_list c = true -> hop_arg_ok h = true -> apply_hop h c = Ok c' -> no_list c' = true.
Proof.
  intros Hc Hh E. destruct h; simpl in *.
  - inversion E; subst. apply set_field_no_list; auto.
  - pose proof (get_no_list "columns" c Hc) as Hg.
    destruct (get "columns" c) eqn:Eg; try discriminate.
    destruct (map_res (change_column_type hm remove_param) l) eqn:Em; try discriminate. inversion E; subst.
    apply set_field_no_list; auto. rewrite no_list_tuple. eapply map_res_no_list; eauto.
  - destruct (append_item (get "columns" c) col) eqn:Ea; try discriminate. inversion E; subst.
    apply set_field_no_list; auto. apply (append_item_no_list (get "columns" c) col a); auto. apply get_no_list; auto.
  - destruct (append_item (get "partitioned_by" c) col) eqn:Ea; try discriminate. inversion E; subst.
    apply set_field_no_list; auto. apply (append_item_no_list (get "partitioned_by" c) col a); auto. apply get_no_list; auto.
  - inversion E; subst. apply set_field_no_list; auto.
Qed.

Lemma apply_hop_cls h c c' : apply_hop h c = Ok c' -> cls_of c' = cls_of c.
Proof.
  intros E. destruct h; simpl in E.
  - inversion E; subst. apply set_field_cls.
  - destruct (get "columns" c); try discriminate;
      destruct (map_res (change_column_type hm remove_param) l); try discriminate; inversion E; subst; apply set_field_cls.
  - destruct (append_item (get "columns" c) col); try discriminate. inversion E; subst. apply set_field_cls.
  - destruct (append_item (get "partitioned_by" c) col); try discriminate. inversion E; subst. apply set_field_cls.
  - inversion E; subst. apply set_field_cls.
Qed.

(* frame: every field other than the helper's own is untouched *)
Lemma apply_hop_frame h c c' g : apply_hop h c = Ok c' -> String.eqb g (hop_field h) = false -> get g c' = get g c.
Proof.
  intros E Hg. destruct h; simpl in *.
  - inversion E; subst. apply set_field_other; auto.
  - destruct (get "columns" c); try discriminate;
      destruct (map_res (change_column_type hm remove_param) l); try discriminate; inversion E; subst; apply set_field_other; auto.
  - destruct (append_item (get "columns" c) col); try discriminate. inversion E; subst. apply set_field_other; auto.
  - destruct (append_item (get "partitioned_by" c) col); try discriminate. inversion E; subst. apply set_field_other; auto.
  - inversion E; subst. apply set_field_other; auto.
Qed.

(* all helper histories *)
Theorem apply_hops_no_list : forall hs c c',
  no_list c = true -> forallb hop_arg_ok hs = true -> apply_hops hs c = Ok c' -> no_list c' = true /\ cls_of c' = cls_of c.
Proof.
  induction hs as [|h hs IH]; simpl; intros c c' Hc Hh E.
  - inversion E; subst. auto.
  - apply andb_true_iff in Hh as [H1 H2]. destruct (apply_hop h c) eqn:Eh; try discriminate.
    destruct (IH a c' (apply_hop_no_list _ _ _ Hc H1 Eh) H2 E) as [A B]. split; auto.
    rewrite B. eapply apply_hop_cls; eauto.
Qed.

Theorem apply_hops_frame : forall hs c c' g,
  apply_hops hs c = Ok c' -> forallb (fun h => negb (String.eqb g (hop_field h))) hs = true -> get g c' = get g c.
Proof.
  induction hs as [|h hs IH]; simpl; intros c c' g E Hg.
  - inversion E; reflexivity.
  - apply andb_true_iff in Hg as [H1 H2]. destruct (apply_hop h c) eqn:Eh; try discriminate.
    rewrite (IH a c' g E H2). eapply apply_hop_frame; eauto. apply negb_true_iff in H1. exact H1.
Qed.

(* what the helpers DO write *)
Lemma set_assoc_hit f x fs : In f (map fst fs) -> field f (set_assoc f x fs) = Some x.
Proof.
  induction fs as [|[k v] fs IH]; simpl; intros H; [contradiction|].
  destruct (String.eqb k f) eqn:E.
  - simpl. apply String.eqb_eq in E; subst. rewrite String.eqb_refl. reflexivity.
  - simpl. rewrite String.eqb_sym, E. apply IH. destruct H as [H|H]; auto. subst. rewrite String.eqb_refl in E. discriminate.
Qed.
Lemma set_table_name_visible c fs tn : In "table_name" (map fst fs) ->
  get "table_name" (set_field "table_name" tn (VNode c fs)) = tn.
Proof. intros H. simpl. rewrite set_assoc_hit; auto. Qed.
Lemma append_column_visible c fs cols col : In "columns" (map fst fs) -> field "columns" fs = Some (VTuple cols) ->
  apply_hop (HAppendColumn col) (VNode c fs) = Ok (set_field "columns" (VTuple (cols ++ [col])) (VNode c fs)).
Proof. intros H E. simpl. rewrite E. reflexivity. Qed.
