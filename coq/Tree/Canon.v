(* Canonical form of a model value with respect to the generated dataclass schema: fields in dataclasses.fields()
   order, defaults filled in for fields the constructor call did not pass.  A class unknown to the schema, a required
   field that is missing, or a field the schema does not know are made visible (they show up as a correspondence
   disagreement), which is what makes the schema part of the tie (schema_complete). *)
From Coq Require Import List NArith ZArith Bool String.
Require Import Base.Common Tree.Value Gen.Schema.
Import ListNotations.
Open Scope string_scope.

Fixpoint find_class (c : string) (l : list cinfo) : option cinfo :=
  match l with [] => None | ci :: l' => if String.eqb (c_name ci) c then Some ci else find_class c l' end.

Definition known_field (ci : cinfo) (f : string) : bool := existsb (fun fi => String.eqb (f_name fi) f) (c_fields ci).

Fixpoint canon (v : value) : value :=
  match v with
  | VNode c fs =>
      let fs' := (fix go (l : list (string * value)) : list (string * value) :=
                    match l with [] => [] | (k, x) :: l' => (k, canon x) :: go l' end) fs in
      match find_class c schema with
      | None => VNode ("?unknown-class:" ++ c) fs'
      | Some ci =>
          let extra := filter (fun p => negb (known_field ci (fst p))) fs' in
          VNode c (map (fun fi => (f_name fi,
                                   match field (f_name fi) fs' with
                                   | Some x => x
                                   | None => match f_default fi with Some dflt => dflt | None => VEnum "?missing" (f_name fi) end
                                   end)) (c_fields ci)
                   ++ map (fun p => ("?extra:" ++ fst p, snd p)) extra)
      end
  | VTuple l => VTuple (map canon l)
  | VList l => VList (map canon l)
  | _ => v
  end.
