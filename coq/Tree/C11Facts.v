(* finite facts about the regenerated dataclass schema *)
From Coq Require Import List NArith ZArith Bool String Ascii Lia.
Require Import Base.Common Tree.Value Tree.Helpers Gen.Schema.
Import ListNotations.

Lemma all_frozen_b : forallb (fun ci => c_frozen ci && c_eq ci && c_slots ci && match c_overrides ci with [] => true | _ => false end) schema = true.
Proof. vm_compute. reflexivity. Qed.
Lemma all_frozen : forall ci, In ci schema -> c_frozen ci = true /\ c_eq ci = true /\ c_slots ci = true /\ c_overrides ci = [].
Proof.
  intros ci H. pose proof all_frozen_b as B. rewrite forallb_forall in B. specialize (B ci H).
  apply andb_true_iff in B as [B B4]. apply andb_true_iff in B as [B B3]. apply andb_true_iff in B as [B1 B2].
  destruct (c_overrides ci); [auto|discriminate].
Qed.

Definition default_ok (f : finfo) : bool := match f_default f with Some d => no_list d | None => true end.
Lemma defaults_b : forallb (fun ci => forallb default_ok (c_fields ci) && forallb (fun p => no_list (snd p)) (c_attrs ci)) schema = true.
Proof. vm_compute. reflexivity. Qed.
Lemma defaults_immutable : forall ci f d, In ci schema -> In f (c_fields ci) -> f_default f = Some d -> no_list d = true.
Proof.
  intros ci f d Hc Hf Hd. pose proof defaults_b as B. rewrite forallb_forall in B. specialize (B ci Hc).
  apply andb_true_iff in B as [B _]. rewrite forallb_forall in B. specialize (B f Hf). unfold default_ok in B. rewrite Hd in B. exact B.
Qed.
