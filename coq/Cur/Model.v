(* Hand-written executable model of the token cursor (common/scanner.py: TokenScanner) and of the token predicates it
   uses (lexical/amt_node.py: equals, has_mark, source_equal and variants).  One constructor of `cop` per public method;
   `step` returns the cursor after the call (also when the call raises) and the observable outcome. *)
From Coq Require Import List NArith Bool Arith.
Require Import Base.Common Gen.LexTable Lex.Model.
Import ListNotations.
Open Scope N_scope.

Record cursor := mkcur { elems : list tok; pos : nat }.

Inductive pat := PStr (s : str) | PMark (m : N).

Definition tok_marks (t : tok) : N := match t with Leaf _ m => m | Group k _ => group_marks k end.
Definition tok_children (t : tok) : list tok := match t with Leaf _ _ => [] | Group _ ts => ts end.
Definition is_group (t : tok) : bool := match t with Leaf _ _ => false | Group _ _ => true end.
Definition has_mark (t : tok) (m : N) : bool := negb (N.eqb (N.land (tok_marks t) m) 0).
(* AMTBase.equals / AMTParenthesisBase.equals *)
Definition tok_equals (t : tok) (p : pat) : bool :=
  match p with
  | PMark m => has_mark t m
  | PStr s => match t with Leaf src _ => str_eqb (upper src) (upper s) | Group _ _ => false end
  end.
Definition source_equal (t : tok) (s : str) : bool := str_eqb (source t) s.
Definition source_equal_upper (t : tok) (s : str) : bool := str_eqb (upper (source t)) s.

Inductive cop : Type :=
| OGetOffset (k : nat) | OGetOffsetOrNull (k : nat) | OGetOrNull | OPop | OMove (k : nat) | OClose
| OSearch (ps : list pat) | OSearchMark (m : N) | OSearchStr (s : str) | OSearchUpper (s : str)
| OSearchUpper2 (a b : str) | OSearchUpper3 (a b c : str) | OSearchSet (l : list str) | OSearchSetUpper (l : list str)
| OSearchMove (ps : list pat) | OSearchMoveStr (s : str) | OSearchMoveUpper (s : str)
| OSearchMoveUpper2 (a b : str) | OSearchMoveUpper3 (a b c : str) | OSearchMoveSet (l : list str) | OSearchMoveSetUpper (l : list str)
| OMatch (ps : list pat) | OGetSource | OPopSource | OGetChildren | OPopChildren | OPopSplit (s : str) | OIsFinish.

Inductive cval : Type :=
| CVUnit | CVBool (b : bool) | CVTok (t : option tok) | CVStr (s : option str)
| CVScanner (ts : list tok) | CVScanners (l : list (list tok)).
Inductive cout : Type := COk (v : cval) | CErr (e : err).

Definition at_off (c : cursor) (k : nat) : option tok := nth_error (elems c) (pos c + k).
Definition len (c : cursor) : nat := length (elems c).

Fixpoint search_from (l : list tok) (ps : list pat) : bool :=
  match ps, l with
  | [], _ => true
  | p :: ps', t :: l' => tok_equals t p && search_from l' ps'
  | _ :: _, [] => false
  end.
Definition search (c : cursor) (ps : list pat) : bool :=
  Nat.leb (pos c + length ps) (len c) && search_from (skipn (pos c) (elems c)) ps.

Definition cur_test (c : cursor) (f : tok -> bool) : bool :=
  match at_off c 0 with Some t => f t | None => false end.
Definition test2 (c : cursor) (a b : str) : bool :=
  match at_off c 0, at_off c 1 with
  | Some t0, Some t1 => source_equal_upper t0 a && source_equal_upper t1 b
  | _, _ => false
  end.
Definition test3 (c : cursor) (a b d : str) : bool :=
  match at_off c 0, at_off c 1, at_off c 2 with
  | Some t0, Some t1, Some t2 => source_equal_upper t0 a && source_equal_upper t1 b && source_equal_upper t2 d
  | _, _, _ => false
  end.

Definition moved (c : cursor) (k : nat) : cursor := mkcur (elems c) (pos c + k).
Definition and_move (c : cursor) (b : bool) (k : nat) : cursor * cout :=
  if b then (moved c k, COk (CVBool true)) else (c, COk (CVBool false)).

(* pop_as_children_scanner_list_split_by: split at leaves equal to `s`, dropping empty segments *)
Fixpoint split_by (ts : list tok) (s : str) (cur : list tok) : list (list tok) :=
  match ts with
  | [] => match cur with [] => [] | _ => [rev cur] end
  | t :: ts' =>
      if tok_equals t (PStr s) then
        match cur with [] => split_by ts' s [] | _ => rev cur :: split_by ts' s [] end
      else split_by ts' s (t :: cur)
  end.

Definition step (c : cursor) (o : cop) : cursor * cout :=
  match o with
  | OGetOffset k => (c, match at_off c k with Some t => COk (CVTok (Some t)) | None => CErr ParseErr end)
  | OGetOffsetOrNull k => (c, COk (CVTok (at_off c k)))
  | OGetOrNull => (c, COk (CVTok (at_off c 0)))
  | OPop => match at_off c 0 with Some t => (moved c 1, COk (CVTok (Some t))) | None => (c, CErr ParseErr) end
  | OMove k => (moved c k, COk CVUnit)
  | OClose => (c, if Nat.ltb (pos c) (len c) then CErr ParseErr else COk CVUnit)
  | OSearch ps => (c, COk (CVBool (search c ps)))
  | OSearchMark m => (c, COk (CVBool (cur_test c (fun t => has_mark t m))))
  | OSearchStr s => (c, COk (CVBool (cur_test c (fun t => source_equal t s))))
  | OSearchUpper s => (c, COk (CVBool (cur_test c (fun t => source_equal_upper t s))))
  | OSearchUpper2 a b => (c, COk (CVBool (test2 c a b)))
  | OSearchUpper3 a b d => (c, COk (CVBool (test3 c a b d)))
  | OSearchSet l => (c, COk (CVBool (cur_test c (fun t => mem_str (source t) l))))
  | OSearchSetUpper l => (c, COk (CVBool (cur_test c (fun t => mem_str (upper (source t)) l))))
  | OSearchMove ps => and_move c (search c ps) (length ps)
  | OSearchMoveStr s => and_move c (cur_test c (fun t => source_equal t s)) 1
  | OSearchMoveUpper s => and_move c (cur_test c (fun t => source_equal_upper t s)) 1
  | OSearchMoveUpper2 a b => and_move c (test2 c a b) 2
  | OSearchMoveUpper3 a b d => and_move c (test3 c a b d) 3
  | OSearchMoveSet l => and_move c (cur_test c (fun t => mem_str (source t) l)) 1
  | OSearchMoveSetUpper l => and_move c (cur_test c (fun t => mem_str (upper (source t)) l)) 1
  | OMatch ps => if search c ps then (moved c (length ps), COk CVUnit) else (c, CErr ParseErr)
  | OGetSource => (c, COk (CVStr (option_map source (at_off c 0))))
  | OPopSource => match at_off c 0 with Some t => (moved c 1, COk (CVStr (Some (source t)))) | None => (c, CErr ParseErr) end
  | OGetChildren => (c, match at_off c 0 with Some t => COk (CVScanner (tok_children t)) | None => CErr ParseErr end)
  | OPopChildren => match at_off c 0 with
                    | Some t => if is_group t then (moved c 1, COk (CVScanner (tok_children t))) else (c, CErr ParseErr)
                    | None => (c, CErr ParseErr)
                    end
  | OPopSplit s => match at_off c 0 with
                   | Some t => if is_group t then (moved c 1, COk (CVScanners (split_by (tok_children t) s []))) else (c, CErr ParseErr)
                   | None => (c, CErr ParseErr)
                   end
  | OIsFinish => (c, COk (CVBool (Nat.leb (len c) (pos c))))
  end.

(* a history of calls on one cursor: positions and outcomes after each call *)
Fixpoint run_ops (c : cursor) (ops : list cop) : list (nat * cout) * cursor :=
  match ops with
  | [] => ([], c)
  | o :: ops' =>
      let '(c', out) := step c o in
      let '(tr, cf) := run_ops c' ops' in ((pos c', out) :: tr, cf)
  end.

Definition is_peek (o : cop) : bool :=
  match o with
  | OGetOffset _ | OGetOffsetOrNull _ | OGetOrNull | OClose | OSearch _ | OSearchMark _ | OSearchStr _ | OSearchUpper _
  | OSearchUpper2 _ _ | OSearchUpper3 _ _ _ | OSearchSet _ | OSearchSetUpper _ | OGetSource | OGetChildren | OIsFinish => true
  | _ => false
  end.
