(* Laws of the token cursor, for all token lists, positions and call histories. *)
From Coq Require Import List NArith Bool Arith Lia.
Require Import Base.Common Gen.LexTable Lex.Model Cur.Model.
Import ListNotations.
Open Scope N_scope.

(* peeking is side-effect free *)
Theorem peek_pure c o : is_peek o = true -> fst (step c o) = c.
Proof. destruct o; simpl; intros H; try discriminate; reflexivity. Qed.

(* the elements never change, the position never decreases *)
Theorem step_frame c o : elems (fst (step c o)) = elems c /\ (pos c <= pos (fst (step c o)))%nat.
Proof.
  destruct o; simpl; try (split; [reflexivity|lia]);
    try (unfold and_move; match goal with |- context [if ?b then _ else _] => destruct b end; simpl; split; try reflexivity; lia);
    try (destruct (at_off c 0) as [t|]; [try destruct (is_group t)|]; simpl; split; try reflexivity; lia).
Qed.

Lemma and_move_spec c b k : and_move c b k = (if b then moved c k else c, COk (CVBool b)).
Proof. unfold and_move. destruct b; reflexivity. Qed.

(* search_and_move*: advances by exactly the matched length iff it answers true, not at all otherwise *)
Definition sm_len (o : cop) : option nat :=
  match o with
  | OSearchMove ps => Some (length ps)
  | OSearchMoveStr _ | OSearchMoveUpper _ | OSearchMoveSet _ | OSearchMoveSetUpper _ => Some 1%nat
  | OSearchMoveUpper2 _ _ => Some 2%nat
  | OSearchMoveUpper3 _ _ _ => Some 3%nat
  | _ => None
  end.
Theorem search_and_move_exact c o n : sm_len o = Some n ->
  exists b, snd (step c o) = COk (CVBool b) /\ pos (fst (step c o)) = (if b then pos c + n else pos c)%nat.
Proof.
  destruct o; simpl; intros H; inversion H; subst; rewrite and_move_spec; simpl;
    match goal with |- context [CVBool ?b] => exists b; split; [reflexivity|destruct b; reflexivity] end.
Qed.

(* the peeking twin of every search_and_move answers the same *)
Definition twin (o : cop) : option cop :=
  match o with
  | OSearchMove ps => Some (OSearch ps) | OSearchMoveStr s => Some (OSearchStr s) | OSearchMoveUpper s => Some (OSearchUpper s)
  | OSearchMoveSet l => Some (OSearchSet l) | OSearchMoveSetUpper l => Some (OSearchSetUpper l)
  | OSearchMoveUpper2 a b => Some (OSearchUpper2 a b) | OSearchMoveUpper3 a b d => Some (OSearchUpper3 a b d)
  | _ => None
  end.
Theorem search_and_move_agrees c o o' : twin o = Some o' -> snd (step c o) = snd (step c o').
Proof. destruct o; simpl; intros H; inversion H; subst; simpl; rewrite and_move_spec; reflexivity. Qed.

(* match: on success the position advances by exactly the number of patterns, on failure it raises the parse error
   and the position does not move at all; it succeeds exactly when search does *)
Theorem match_exact c ps :
  (search c ps = true /\ step c (OMatch ps) = (moved c (length ps), COk CVUnit)) \/
  (search c ps = false /\ step c (OMatch ps) = (c, CErr ParseErr)).
Proof. simpl. destruct (search c ps); [left|right]; auto. Qed.

(* a successful search really looked at tokens that exist *)
Theorem search_in_range c ps : search c ps = true -> (pos c + length ps <= len c)%nat.
Proof. unfold search. intros H. apply andb_true_iff in H as [H _]. apply Nat.leb_le. exact H. Qed.

(* close reports leftovers: it raises iff tokens remain *)
Theorem close_reports c : snd (step c OClose) = CErr ParseErr <-> (pos c < len c)%nat.
Proof.
  simpl. destruct (Nat.ltb_spec (pos c) (len c)); split; intros H0; try reflexivity; try lia; try discriminate; auto.
Qed.

(* a failing call (any kind) leaves the cursor where it was; the only error is the library's parse error *)
Theorem error_leaves_cursor c o e : snd (step c o) = CErr e -> fst (step c o) = c /\ e = ParseErr.
Proof.
  destruct o; simpl; try discriminate;
    try (unfold and_move; match goal with |- context [if ?b then _ else _] => destruct b end; simpl; discriminate);
    try (destruct (at_off c _) as [t|]; [try destruct (is_group t)|]; simpl; intros H; inversion H; auto).
  - destruct (Nat.ltb (pos c) (len c)); intros H; inversion H; auto.
  - destruct (search c ps); simpl; intros H; inversion H; auto.
Qed.

(* children scanners are fresh: they start at position 0 over the children of the current token (modelled by the
   value CVScanner ts; a new cursor is mkcur ts 0) and the parent only moves by one *)
Theorem pop_children_moves_one c t : at_off c 0 = Some t -> is_group t = true ->
  step c OPopChildren = (moved c 1, COk (CVScanner (tok_children t))).
Proof. simpl. intros -> ->. reflexivity. Qed.
(* the children of a word or literal cannot be popped: the call fails and the cursor stays *)
Theorem pop_children_needs_group c t : at_off c 0 = Some t -> is_group t = false -> step c OPopChildren = (c, CErr ParseErr).
Proof. simpl. intros -> ->. reflexivity. Qed.

(* ---------- histories ---------- *)
Lemma run_ops_frame ops : forall c, elems (snd (run_ops c ops)) = elems c /\ (pos c <= pos (snd (run_ops c ops)))%nat.
Proof.
  induction ops as [|o ops IH]; intros c; simpl; [split; [reflexivity|lia]|].
  destruct (step c o) as [c' out] eqn:E. destruct (run_ops c' ops) as [tr cf] eqn:E2. simpl.
  pose proof (step_frame c o) as [H1 H2]. rewrite E in H1, H2. simpl in H1, H2.
  specialize (IH c'). rewrite E2 in IH. simpl in IH. destruct IH as [H3 H4]. split; [congruence|lia].
Qed.

(* every position recorded in a history is at least the starting position, and positions are non-decreasing *)
Fixpoint sorted_from (p : nat) (l : list nat) : Prop :=
  match l with [] => True | x :: l' => (p <= x)%nat /\ sorted_from x l' end.
Theorem history_monotone ops : forall c, sorted_from (pos c) (map fst (fst (run_ops c ops))).
Proof.
  induction ops as [|o ops IH]; intros c; simpl; [exact I|].
  destruct (step c o) as [c' out] eqn:E. destruct (run_ops c' ops) as [tr cf] eqn:E2. simpl.
  pose proof (step_frame c o) as [_ H2]. rewrite E in H2. simpl in H2. split; [exact H2|].
  specialize (IH c'). rewrite E2 in IH. exact IH.
Qed.

(* peeks can be erased from any history without changing the final cursor *)
Theorem peeks_erasable ops : forall c,
  snd (run_ops c ops) = snd (run_ops c (filter (fun o => negb (is_peek o)) ops)).
Proof.
  induction ops as [|o ops IH]; intros c; simpl; [reflexivity|].
  destruct (is_peek o) eqn:Ep; simpl.
  - pose proof (peek_pure c o Ep) as Hp. destruct (step c o) as [c' out]. simpl in Hp. subst c'.
    destruct (run_ops c ops) as [tr cf] eqn:E2. simpl. rewrite <- IH, E2. reflexivity.
  - destruct (step c o) as [c' out]. destruct (run_ops c' ops) as [tr cf] eqn:E2.
    destruct (run_ops c' (filter (fun o0 => negb (is_peek o0)) ops)) as [tr2 cf2] eqn:E3. simpl.
    specialize (IH c'). rewrite E2, E3 in IH. exact IH.
Qed.

(* a history of n calls moves the position by at most the sum of the literal arities / move arguments *)
Definition max_adv (o : cop) : nat :=
  match o with
  | OPop | OPopSource | OPopChildren | OPopSplit _ | OSearchMoveStr _ | OSearchMoveUpper _ | OSearchMoveSet _ | OSearchMoveSetUpper _ => 1
  | OSearchMoveUpper2 _ _ => 2 | OSearchMoveUpper3 _ _ _ => 3
  | OSearchMove ps | OMatch ps => length ps
  | OMove k => k
  | _ => 0
  end%nat.
Theorem step_bounded c o : (pos (fst (step c o)) <= pos c + max_adv o)%nat.
Proof.
  destruct o; simpl; try lia;
    try (unfold and_move; match goal with |- context [if ?b then _ else _] => destruct b end; simpl; lia);
    try (destruct (at_off c 0) as [t|]; [try destruct (is_group t)|]; simpl; lia);
    try (destruct (search c ps); simpl; lia).
Qed.

(* except for the unchecked move(), no call moves the cursor past the end *)
Theorem stays_in_range c o : (pos c <= len c)%nat -> (forall k, o <> OMove k) -> (pos (fst (step c o)) <= len c)%nat.
Proof.
  intros Hc Hm.
  assert (Hat : forall k t, at_off c k = Some t -> (pos c + k < len c)%nat).
  { intros k t H. unfold at_off in H. apply nth_error_Some. congruence. }
  assert (H2 : forall a b, test2 c a b = true -> (pos c + 2 <= len c)%nat).
  { intros a b H. unfold test2 in H. destruct (at_off c 0); [|discriminate]. destruct (at_off c 1) eqn:E1; [|discriminate].
    apply Hat in E1. lia. }
  assert (H3 : forall a b d, test3 c a b d = true -> (pos c + 3 <= len c)%nat).
  { intros a b d H. unfold test3 in H. destruct (at_off c 0); [|discriminate]. destruct (at_off c 1); [|discriminate].
    destruct (at_off c 2) eqn:E2; [|discriminate]. apply Hat in E2. lia. }
  assert (H1 : forall f, cur_test c f = true -> (pos c + 1 <= len c)%nat).
  { intros f H. unfold cur_test in H. destruct (at_off c 0) eqn:E0; [|discriminate]. apply Hat in E0. lia. }
  destruct o; simpl; try lia;
    try (destruct (at_off c 0) as [t|] eqn:E0; [try destruct (is_group t)|]; simpl; try (apply Hat in E0); lia).
  - exfalso. apply (Hm k). reflexivity.
  - rewrite and_move_spec. simpl. destruct (search c ps) eqn:E; simpl; [apply search_in_range in E; lia|lia].
  - rewrite and_move_spec. simpl. match goal with |- context [if ?b then _ else _] => destruct b eqn:E end; simpl; [apply H1 in E; lia|lia].
  - rewrite and_move_spec. simpl. match goal with |- context [if ?b then _ else _] => destruct b eqn:E end; simpl; [apply H1 in E; lia|lia].
  - rewrite and_move_spec. simpl. destruct (test2 c a b) eqn:E; simpl; [apply H2 in E; lia|lia].
  - rewrite and_move_spec. simpl. destruct (test3 c a b c0) eqn:E; simpl; [apply H3 in E; lia|lia].
  - rewrite and_move_spec. simpl. match goal with |- context [if ?b then _ else _] => destruct b eqn:E end; simpl; [apply H1 in E; lia|lia].
  - rewrite and_move_spec. simpl. match goal with |- context [if ?b then _ else _] => destruct b eqn:E end; simpl; [apply H1 in E; lia|lia].
  - destruct (search c ps) eqn:E; simpl; [apply search_in_range in E; lia|lia].
Qed.
