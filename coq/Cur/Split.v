(* pop_as_children_scanner_list_split_by (common/scanner.py), as modelled by Cur.Model.split_by and used by Parse.Prim.pop_split:
   splitting the children of a bracket group at a separator loses nothing but the separators, keeps the order, makes no empty
   segment and leaves no separator inside a segment.  With Parse.Prim.each_closed (every segment is consumed completely) this is
   the "nothing inside a comma-separated bracket group is dropped" half of C08 / C03 for value lists, column lists, type
   parameters, partition lists ... at the level of tokens. *)
From Coq Require Import List NArith Bool Arith Lia.
Require Import Base.Common Gen.LexTable Lex.Model Cur.Model.
Import ListNotations.
Local Open Scope nat_scope.

Definition is_sep (s : str) (t : tok) : bool := tok_equals t (PStr s).
Definition not_sep (s : str) (t : tok) : bool := negb (is_sep s t).

(* 1. conservation and order: the segments, concatenated, are the children with the separators struck out *)
Lemma split_by_concat s ts : forall cur, concat (split_by ts s cur) = rev cur ++ filter (not_sep s) ts.
Proof.
  induction ts as [|t ts IH]; intros cur; cbn [split_by filter].
  - destruct cur as [|c cur']; cbn [concat]; rewrite ?app_nil_r; reflexivity.
  - unfold not_sep at 1, is_sep. destruct (tok_equals t (PStr s)) eqn:E; cbn [negb].
    + destruct cur as [|c cur']; cbn [concat]; rewrite IH; reflexivity.
    + rewrite IH. cbn [rev]. rewrite <- app_assoc. reflexivity.
Qed.

Theorem split_conserves s ts : concat (split_by ts s []) = filter (not_sep s) ts.
Proof. rewrite split_by_concat. reflexivity. Qed.

(* 2. no empty segment *)
Lemma split_by_nonempty s ts : forall cur, Forall (fun sg => sg <> []) (split_by ts s cur).
Proof.
  assert (R : forall (c : tok) l, rev (c :: l) <> []).
  { intros c l H. apply (f_equal (@length tok)) in H. rewrite rev_length in H. discriminate H. }
  induction ts as [|t ts IH]; intros cur; cbn [split_by].
  - destruct cur as [|c cur']; constructor; [apply R | constructor].
  - destruct (tok_equals t (PStr s)).
    + destruct cur as [|c cur']; [apply IH | constructor; [apply R | apply IH]].
    + apply IH.
Qed.

(* 3. no separator survives inside a segment *)
Lemma split_by_no_sep s ts : forall cur, Forall (fun t => is_sep s t = false) cur ->
  Forall (Forall (fun t => is_sep s t = false)) (split_by ts s cur).
Proof.
  assert (R : forall l, Forall (fun t => is_sep s t = false) l -> Forall (fun t => is_sep s t = false) (rev l)).
  { intros l H. apply Forall_forall. intros x Hx. apply in_rev in Hx. revert x Hx. apply Forall_forall. exact H. }
  induction ts as [|t ts IH]; intros cur Hc; cbn [split_by].
  - destruct cur as [|c cur']; constructor; [apply R; exact Hc | constructor].
  - destruct (tok_equals t (PStr s)) eqn:E.
    + destruct cur as [|c cur']; [apply IH; constructor | constructor; [apply R; exact Hc | apply IH; constructor]].
    + apply IH. constructor; [exact E | exact Hc].
Qed.

Theorem split_segments_clean s ts :
  Forall (fun sg => sg <> [] /\ Forall (fun t => is_sep s t = false) sg) (split_by ts s []).
Proof.
  pose proof (split_by_nonempty s ts []) as H1. pose proof (split_by_no_sep s ts [] (Forall_nil _)) as H2.
  revert H1 H2. generalize (split_by ts s []). intros l. induction l as [|x l IH]; intros H1 H2; constructor.
  - inversion H1; inversion H2; subst. split; assumption.
  - inversion H1; inversion H2; subst. apply IH; assumption.
Qed.

(* 4. the number of segments is bounded by the number of separators plus one, and reaches it when no two separators touch *)
Lemma split_by_count s ts : forall cur,
  length (split_by ts s cur) <= length (filter (is_sep s) ts) + 1.
Proof.
  induction ts as [|t ts IH]; intros cur; cbn [split_by filter].
  - destruct cur; cbn [length]; lia.
  - unfold is_sep at 1. destruct (tok_equals t (PStr s)).
    + destruct cur as [|c cur']; cbn [length]; specialize (IH []); lia.
    + apply IH.
Qed.

(* 5. a group without separators is one segment (or none when the group is empty): nothing is split where nothing separates *)
Lemma split_by_none s ts : forall cur, Forall (fun t => is_sep s t = false) ts ->
  split_by ts s cur = match rev cur ++ ts with [] => [] | l => [l] end.
Proof.
  induction ts as [|t ts IH]; intros cur H; cbn [split_by].
  - rewrite app_nil_r. destruct cur as [|c cur']; [reflexivity|].
    destruct (rev (c :: cur')) eqn:E; [|reflexivity].
    apply (f_equal (@length tok)) in E. rewrite rev_length in E. discriminate E.
  - inversion H as [|x l Ht Hts]; subst. unfold is_sep in Ht. rewrite Ht. rewrite IH by exact Hts.
    cbn [rev]. rewrite <- app_assoc. reflexivity.
Qed.

Example split_example :
  let a := Leaf [97%N] 0%N in let c := Leaf [44%N] 0%N in
  split_by [a; c; c; a; a; c] [44%N] [] = [[a]; [a; a]].
Proof. vm_compute. reflexivity. Qed.
