(* Carriage of quoted text through the parser and printer models, and the refutation witnesses of the end-to-end claim *)
From Coq Require Import List NArith ZArith Bool String Ascii Lia.
Require Import Base.Common Gen.LexTable Lex.Model Cur.Model Tree.Value Tree.Canon Tree.Eq Gen.Schema Gen.Static
               Parse.Prim Parse.Model Parse.Entry Print.Model.
Import ListNotations.
Open Scope string_scope.

(* the literal node holds the token text, byte for byte; identifiers lose exactly their enclosing back-quotes *)
Lemma literal_verbatim s m r : parse_literal (Leaf s m :: r) = Ok (VNode "ASTLiteralExpression" [("value", VStr s)], r).
Proof. reflexivity. Qed.
(* every dialect prints a literal exactly as it is stored *)
Lemma print_literal_verbatim : forall d s, print d (VNode "ASTLiteralExpression" [("value", VStr s)]) = Ok s.
Proof. intros d s. destruct d; vm_compute; reflexivity. Qed.

(* the value of the first select item of a one-statement text *)
Definition first_item (d : sqltype) (text : string) : option value :=
  match parse_text false "statements" d (S text) with
  | Ok (VList [q]) => match get "columns" (get "select_clause" q) with VTuple (c :: _) => Some (get "value" c) | _ => None end
  | _ => None
  end.
Definition lit (s : string) : option value := Some (VNode "ASTLiteralExpression" [("value", VStr (S s))]).
Definition opt_veqb (a b : option value) : bool := match a, b with Some x, Some y => veqb x y | _, _ => false end.

(* the pipeline carries ordinary payloads verbatim ... *)
Definition carried_ok : bool :=
  opt_veqb (first_item D_DEFAULT "SELECT 'a; -- /* ) SELECT `x` ' FROM t") (lit "'a; -- /* ) SELECT `x` '")
  && opt_veqb (first_item D_MYSQL "SELECT ""x'y;)"" FROM t") (lit """x'y;)""")
  && opt_veqb (first_item D_HIVE "SELECT 'a = b' FROM t /* ' */") (lit "'a = b'")
  && opt_veqb (first_item D_DEFAULT "SELECT `a;b) -- '` FROM t")
              (Some (VNode "ASTColumnNameExpression" [("table_name", VNone); ("column_name", VStr (S "a;b) -- '"))])).
Lemma carried : carried_ok = true. Proof. vm_compute. reflexivity. Qed.

(* ... but NOT every payload: the text-level pre-passes act inside quotes (refutation witnesses of the full statement) *)
Definition tab_text : str := (S "SELECT 'a" ++ [9%N] ++ S "b' FROM t")%list.
Definition refuted_ok : bool :=
  (* TAB inside a literal becomes a blank (preproc_sql) *)
  match parse_text false "statements" D_DEFAULT tab_text with
  | Ok (VList [q]) => match get "columns" (get "select_clause" q) with
                      | VTuple (c :: _) => veqb (get "value" c) (VNode "ASTLiteralExpression" [("value", VStr (S "'a b'"))])
                      | _ => false end
  | _ => false
  end
  (* Hive: '==' inside a literal becomes '=' *)
  && opt_veqb (first_item D_HIVE "SELECT 'a==b' FROM t") (lit "'a=b'")
  (* DB2: CURRENT DATE inside a literal becomes CURRENT_DATE *)
  && opt_veqb (first_item D_DB2 "SELECT 'CURRENT DATE' FROM t") (lit "'CURRENT_DATE'").
Lemma refuted : refuted_ok = true. Proof. vm_compute. reflexivity. Qed.
