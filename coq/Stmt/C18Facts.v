(* Facts behind Props/C18.v *)
From Coq Require Import List NArith ZArith Bool String Ascii Lia.
Require Import Base.Common Gen.LexTable Lex.Model Cur.Model Tree.Value Tree.Canon Tree.Helpers Tree.HelperProofs Gen.Schema Gen.Static
               Parse.Prim Parse.Model Parse.Entry Print.Model Stmt.HelperEntry.
Import ListNotations.
Open Scope string_scope.
Open Scope list_scope.

Definition hive_types : list str := [S "STRING"; S "TINYINT"; S "SMALLINT"; S "INT"; S "BIGINT"; S "FLOAT"; S "DOUBLE"; S "DECIMAL"].

Lemma assoc_some_iff {B} (k : str) (l : list (str * B)) : (exists v, assoc k l = Some v) <-> existsb (fun p => str_eqb k (fst p)) l = true.
Proof.
  induction l as [|[k' v] l IH]; simpl.
  - split; [intros [v H]; discriminate|discriminate].
  - destruct (str_eqb k k'); simpl; [split; eauto|exact IH].
Qed.

Lemma type_map_total_b : forallb (fun p => existsb (fun q => str_eqb (fst p) (fst q)) hashmap_mysql_to_hive) mysql_data_type = true.
Proof. vm_compute. reflexivity. Qed.
Lemma type_map_total : forall t lim, In (t, lim) mysql_data_type -> exists h, assoc t hashmap_mysql_to_hive = Some h.
Proof.
  intros t lim H. apply assoc_some_iff. pose proof type_map_total_b as B. rewrite forallb_forall in B. apply (B _ H).
Qed.

Lemma type_map_range_b : forallb (fun p => mem_str (snd p) hive_types) hashmap_mysql_to_hive = true.
Proof. vm_compute. reflexivity. Qed.
Lemma mem_str_In k l : mem_str k l = true -> In k l.
Proof.
  unfold mem_str. rewrite existsb_exists. intros [x [Hx E]]. apply str_eqb_eq in E. subst. exact Hx.
Qed.
Lemma type_map_range : forall k h, In (k, h) hashmap_mysql_to_hive -> In h hive_types.
Proof. intros k h H. pose proof type_map_range_b as B. rewrite forallb_forall in B. apply mem_str_In. apply (B _ H). Qed.

Lemma change_type_maps : forall hm rp col col' n,
  get "name" (get "column_type" col) = VStr n -> In "column_type" (map fst (match col with VNode _ fs => fs | _ => [] end)) ->
  change_column_type hm rp col = Ok col' ->
  exists n', assoc (upper n) hm = Some n' /\ get "name" (get "column_type" col') = VStr n' /\
             get "params" (get "column_type" col') = (if rp then VNone else get "params" (get "column_type" col)) /\
             forall g, String.eqb g "column_type" = false -> get g col' = get g col.
Proof.
  intros hm rp col col' n Hn Hin E. unfold change_column_type in E. rewrite Hn in E.
  destruct (assoc (upper n) hm) as [n'|] eqn:Ea; [|discriminate]. inversion E; subst. exists n'. split; [reflexivity|].
  destruct col as [c fs| | | | | | |]; simpl in Hin; try contradiction.
  assert (G : get "column_type" (set_field "column_type" (VNode "ASTColumnTypeExpression" [("name", VStr n'); ("params", if rp then VNone else get "params" (get "column_type" (VNode c fs)))]) (VNode c fs))
              = VNode "ASTColumnTypeExpression" [("name", VStr n'); ("params", if rp then VNone else get "params" (get "column_type" (VNode c fs)))]).
  { simpl. rewrite set_assoc_hit; auto. }
  rewrite G. repeat split; try reflexivity.
  intros g Hg. apply set_field_other. exact Hg.
Qed.

Definition type_with_params (n : str) : value :=
  VNode "ASTColumnTypeExpression" [("name", VStr n); ("params", VTuple [VNode "ASTLiteralExpression" [("value", VStr (S "10"))];
                                                                         VNode "ASTLiteralExpression" [("value", VStr (S "2"))]])].
Definition params_rule_ok (n : str) : bool :=
  match print D_HIVE (type_with_params n), print D_MYSQL (type_with_params n) with
  | Ok h, Ok m => str_eqb h (if mem_str n [S "DECIMAL"; S "VARCHAR"; S "CHAR"] then n ++ S "(10,2)" else n) && str_eqb m (n ++ S "(10,2)")
  | _, _ => false
  end.
Lemma hive_params_rule_b : forallb params_rule_ok (map fst mysql_data_type ++ map snd hashmap_mysql_to_hive) = true.
Proof. vm_compute. reflexivity. Qed.
Lemma hive_params_rule :
  forall n, In n (map fst mysql_data_type ++ map snd hashmap_mysql_to_hive) ->
    print D_HIVE (type_with_params n) = Ok (if mem_str n [S "DECIMAL"; S "VARCHAR"; S "CHAR"] then n ++ S "(10,2)" else n) /\
    print D_MYSQL (type_with_params n) = Ok (n ++ S "(10,2)").
Proof.
  intros n H. pose proof hive_params_rule_b as B. rewrite forallb_forall in B. specialize (B _ H). unfold params_rule_ok in B.
  destruct (print D_HIVE (type_with_params n)) as [h|]; [|discriminate].
  destruct (print D_MYSQL (type_with_params n)) as [m|]; [|discriminate].
  apply andb_true_iff in B as [B1 B2]. apply str_eqb_eq in B1. apply str_eqb_eq in B2. subst. split; reflexivity.
Qed.

(* CREATE TABLE t (id INT(11) COMMENT 'k', name VARCHAR(20), amt DECIMAL(10,2)) COMMENT 'tbl'  -> change_type -> Hive text *)
Definition example_ddl : str :=
  S "CREATE TABLE db.t (id INT(11) NOT NULL COMMENT 'k', name VARCHAR(20), amt DECIMAL(10,2)) COMMENT='tbl'".
Definition example_converts : bool :=
  match helpers_text [RChangeType false; RSetTableName (Some (S "ods")) (S "t2")] example_ddl with
  | Ok (Ok v) =>
      match print D_HIVE v with
      | Ok s => match parse_text false "create_table_statement" D_HIVE s with
                | Ok v2 => match print D_HIVE v2 with Ok s2 => str_eqb s s2 | _ => false end
                | _ => false
                end
      | _ => false
      end
  | _ => false
  end.
