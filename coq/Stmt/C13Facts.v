(* Computed facts behind Props/C13.v (parser and printer models on concrete nested statements) *)
From Coq Require Import List NArith ZArith Bool String Ascii Lia.
Require Import Base.Common Gen.LexTable Lex.Model Cur.Model Tree.Value Tree.Canon Tree.Eq Gen.Schema Gen.Static
               Parse.Prim Parse.Model Parse.Entry Print.Model.
Import ListNotations.
Open Scope string_scope.

Definition same_parse (d : sqltype) (a b : string) : bool :=
  match parse_text false "statements" d (S a), parse_text false "statements" d (S b) with
  | Ok x, Ok y => veqb x y
  | _, _ => false
  end.
Definition differ_parse (d : sqltype) (a b : string) : bool :=
  match parse_text false "statements" d (S a), parse_text false "statements" d (S b) with
  | Ok x, Ok y => negb (veqb x y)
  | _, _ => true
  end.

Definition nested_examples_ok : bool :=
  same_parse D_HIVE "SELECT a FROM (SELECT CASE WHEN f(1, (! a = b)) THEN 1 END FROM t) x WHERE c IN (SELECT d FROM u WHERE ! e == 1)"
                    "SELECT a FROM (SELECT CASE WHEN f(1, (NOT a = b)) THEN 1 END FROM t) x WHERE c IN (SELECT d FROM u WHERE NOT e = 1)"
  && differ_parse D_MYSQL "SELECT 1 FROM t WHERE (! a = b)" "SELECT 1 FROM t WHERE (NOT a = b)"
  && same_parse D_DB2 "SELECT f((CURRENT DATE)) FROM t WHERE a IN (SELECT CURRENT TIMESTAMP FROM u)"
                      "SELECT f((CURRENT_DATE)) FROM t WHERE a IN (SELECT CURRENT_TIMESTAMP FROM u)"
  && same_parse D_HIVE "SELECT 1 FROM t JOIN u ON t.a == u.a AND (t.b == 1 OR ! t.c IS NULL)"
                       "SELECT 1 FROM t JOIN u ON t.a = u.a AND (t.b = 1 OR NOT t.c IS NULL)".
Lemma nested_examples : nested_examples_ok = true.
Proof. vm_compute. reflexivity. Qed.

Definition print_of (pd qd : sqltype) (text : string) : list (res str) :=
  match parse_text false "statements" pd (S text) with
  | Ok (VList l) => map (print qd) l
  | _ => []
  end.
Definition all_err (e : err) (l : list (res str)) : bool :=
  match l with [] => false | _ => forallb (fun r => match r, e with Err NotSupport, NotSupport => true | Err ParseErr, ParseErr => true | _, _ => false end) l end.
Definition all_ok (l : list (res str)) : bool := match l with [] => false | _ => forallb (fun r => match r with Ok _ => true | _ => false end) l end.
Definition refusals_ok : bool :=
  forallb (fun d => if d_in d [D_HIVE] then all_ok (print_of D_HIVE d "SELECT a[1] FROM t") else all_err NotSupport (print_of D_HIVE d "SELECT a[1] FROM t"))
          all_sqltypes
  && forallb (fun d => if d_in d mod_dialects then all_ok (print_of D_MYSQL d "SELECT a % 2 FROM t")
                       else all_err NotSupport (print_of D_MYSQL d "SELECT a % 2 FROM t")) all_sqltypes
  && forallb (fun d => if d_in d [D_MYSQL; D_HIVE] then all_ok (print_of D_MYSQL d "CREATE TABLE t (a INT)")
                       else all_err ParseErr (print_of D_MYSQL d "CREATE TABLE t (a INT)")) all_sqltypes.
Lemma refusals : refusals_ok = true.
Proof. vm_compute. reflexivity. Qed.
