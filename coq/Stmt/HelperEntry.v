(* Entry point of the HELPERS correspondence request: parse a CREATE TABLE text (MySQL dialect), apply a history of
   copy-and-modify helper calls, return the resulting tree. *)
From Coq Require Import List NArith ZArith Bool String.
Require Import Base.Common Gen.LexTable Lex.Model Cur.Model Tree.Value Tree.Canon Tree.Helpers Gen.Static Parse.Prim Parse.Model Parse.Entry.
Import ListNotations.
Open Scope string_scope.

Inductive hreq : Type :=
| RSetTableName (schema : option str) (name : str)
| RChangeType (remove_param : bool)
| RAppendColumn (text : str)
| RAppendPartition (text : str).

Definition table_name_value (s : option str) (t : str) : value :=
  VNode "ASTTableNameExpression" [("schema_name", match s with Some x => VStr x | None => VNone end); ("table_name", VStr t)].

Definition hop_of_req (r : hreq) : res hop :=
  match r with
  | RSetTableName s t => Ok (HSetTableName (table_name_value s t))
  | RChangeType rp => Ok (HChangeType hashmap_mysql_to_hive rp)
  | RAppendColumn text => match parse_text false "define_column_expression" D_MYSQL text with Ok v => Ok (HAppendColumn v) | Err e => Err e end
  | RAppendPartition text => match parse_text false "define_column_expression" D_MYSQL text with Ok v => Ok (HAppendPartitionColumn v) | Err e => Err e end
  end.

(* outer result: parsing (of the statement or of a helper argument); inner result: the helper calls *)
Definition helpers_text (rs : list hreq) (text : str) : res (res value) :=
  match parse_text false "create_table_statement" D_MYSQL text with
  | Err e => Err e
  | Ok c =>
      match map_res hop_of_req rs with
      | Err e => Err e
      | Ok hs => Ok (match apply_hops hs c with Ok v => Ok (canon v) | Err e => Err e end)
      end
  end.

(* SETWITH: statement A supplies a WITH clause, statement B (a SELECT) receives it through set_with_clauses *)
Definition setwith_text (d : sqltype) (a b : str) : res (res value) :=
  match parse_text false "statements" d a, parse_text false "statements" d b with
  | Ok (VList [sa]), Ok (VList [sb]) =>
      if (String.eqb (cls_of sb) "ASTSingleSelectStatement" || String.eqb (cls_of sb) "ASTUnionSelectStatement")%bool
      then Ok (match apply_hop (HSetWithClause (get "with_clause" sa)) sb with Ok v => Ok (canon v) | Err e => Err e end)
      else Err ParseErr
  | Err e, _ => Err e
  | _, Err e => Err e
  | _, _ => Err ParseErr
  end.
